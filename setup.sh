#!/bin/sh
# setup_cmd: offline build of what the checks need (idempotent; every check also
# re-creates what it needs lazily, so a missing piece is never a reason to fail)
set -e
here=$(cd "$(dirname "$0")" && pwd)
cd "$here"
mkdir -p build .deps evidence
if [ -f native/fsshim.c ]; then
  gcc -O2 -shared -fPIC -w -o build/fsshim.so native/fsshim.c -ldl -lpthread
fi
/venv/bin/python -m pip install -q --no-index --find-links /opt/veriftools/wheels \
   --target .deps numpy icontract deal >/dev/null 2>&1 || \
/venv/bin/python -m pip install -q --no-index --find-links /opt/veriftools/wheels \
   --target .deps --upgrade numpy icontract deal
echo setup ok
