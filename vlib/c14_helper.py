"""helper 'library' of C14's Memory cases: classes of stored results that later vanish or change their constructor"""


class ReportA:
    def __init__(self, x):
        self.x = x

    def __eq__(self, o):
        return type(o).__name__ == type(self).__name__ and o.x == self.x


class Pair:
    """pickled through its constructor arguments"""

    def __init__(self, a, b=None):
        self.a, self.b = a, b

    def __reduce__(self):
        return (type(self), (self.a,) if STATE["pair_args"] == 1 else (self.a, self.b))

    def __eq__(self, o):
        return isinstance(o, Pair) and (o.a, o.b) == (self.a, self.b)


STATE = {"cls": "ReportA", "pair_args": 2}


def build(kind, x):
    import sys
    me = sys.modules[__name__]
    if kind == "report":
        return getattr(me, STATE["cls"])(x)
    return me.Pair(x) if STATE["pair_args"] == 1 else me.Pair(x, "b")


class Flaky:
    """a value whose pickling fails while FAIL[0] is set (a result that can be stored at one time and not at another)"""

    FAIL = [False]

    def __init__(self, v):
        self.v = v

    def __eq__(self, o):
        return isinstance(o, Flaky) and o.v == self.v

    def __hash__(self):
        return hash(("Flaky", self.v))

    def __repr__(self):
        return f"Flaky({self.v!r})"

    def __reduce__(self):
        if Flaky.FAIL[0]:
            import pickle
            raise pickle.PicklingError("this value cannot be pickled right now")
        return (Flaky, (self.v,))
