"""task functions / exceptions importable from worker processes"""
import os
import time


class Boom(Exception):
    pass


class BoomBase(BaseException):
    """a failure that is not an Exception (like SystemExit, asyncio.CancelledError, pytest's Failed)"""


class BoomFalsy(Exception):
    """an exception whose instances are falsy (a container-like exception with a length of 0)"""

    def __len__(self):
        return 0


class PicklingRaisesIndexError:
    """an argument whose pickling raises IndexError (a buggy __getstate__ / __reduce__ indexing an empty list)"""

    def __reduce__(self):
        raise IndexError("pickling this argument indexes an empty list")


EXC = {"BoomFalsy": BoomFalsy, "Boom": Boom, "BoomBase": BoomBase, "SystemExit": SystemExit, "StopIteration": StopIteration, "KeyboardInterrupt": KeyboardInterrupt}


def clog_task(i, tag, exc, stuck_s):
    """the failing task raises `exc` after a moment; every other task of the call stays busy for stuck_s seconds"""
    if exc is None:
        time.sleep(stuck_s)
        return (tag, i)
    time.sleep(0.05)
    if exc == "Boom":
        raise Boom(tag, i)
    if exc == "BoomBase":
        raise BoomBase(tag, i)
    if exc == "SystemExit":
        raise SystemExit(tag, i)
    if exc == "KeyboardInterrupt":
        raise KeyboardInterrupt(tag, i)
    raise AssertionError(exc)


def task(i, tag, fail, dur=0.0, logfile=None):
    if dur:
        time.sleep(dur)
    if logfile:
        fd = os.open(logfile, os.O_WRONLY | os.O_APPEND | os.O_CREAT, 0o644)
        try:
            os.write(fd, b"%s %d %d\n" % (tag.encode(), i, os.getpid()))
        finally:
            os.close(fd)
    if fail:
        raise (EXC[fail] if isinstance(fail, str) else Boom)(tag, i)
    return (tag, i)


def gated_task(i, tag, gate_dir, poll=0.005, max_wait=60.0):
    """returns once gate file <gate_dir>/<i> exists (never, if it is not created)"""
    t0 = time.time()
    p = os.path.join(gate_dir, str(i))
    while not os.path.exists(p):
        if time.time() - t0 > max_wait:
            break
        time.sleep(poll)
    return (tag, i)


WORKER_TAG = [None]


def init_worker(tag):
    """pool initializer: marks the worker process"""
    WORKER_TAG[0] = tag


def tagged_task(i, tag, fail, dur=0.0, logfile=None):
    r = task(i, tag, fail, dur, logfile)
    return r + (WORKER_TAG[0],)


class UnpicklableError(Exception):
    """an exception that cannot be sent back from a worker process"""

    def __reduce__(self):
        import threading
        return (UnpicklableError, (threading.Lock(),))


def transport_task(i, tag, how, arg=None):
    """a task that fails in TRANSPORT on a process pool: its result or its exception cannot be pickled (its argument, when
    how == 'unpicklable-argument', could not even be sent)"""
    import threading
    if how == "unpicklable-result":
        return threading.Lock()
    if how == "unpicklable-exception":
        raise UnpicklableError(tag, i)
    return (tag, i, WORKER_TAG[0])
