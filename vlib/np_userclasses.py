"""numpy subclasses importable from workers / loaders"""
import numpy as np


class MyArr(np.ndarray):
    """plain user subclass"""


class Tagged(np.ndarray):
    """user subclass carrying an attribute through __reduce__ / __setstate__"""

    def __new__(cls, arr, tag=None):
        obj = np.asarray(arr).view(cls)
        obj.tag = tag
        return obj

    def __array_finalize__(self, obj):
        self.tag = getattr(obj, "tag", None)

    def __reduce__(self):
        r = super().__reduce__()
        return (r[0], r[1], r[2] + (self.tag,))

    def __setstate__(self, state):
        self.tag = state[-1]
        super().__setstate__(state[:-1])
