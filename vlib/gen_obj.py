"""Recursive universe of builtin scalars / containers / user objects as JSON-able
specs, with a builder, a typed order-insensitive canonical form and a
structural isomorphism test (equality + aliasing / recursion structure).

spec grammar (nested lists):
  ["i", "123"] int      ["f", "1.5"] float   ["b", 1] bool   ["n"] None
  ["s", "txt"] str      ["y", "6161"] bytes (hex)    ["c", "1.0", "2.0"] complex
  ["B", "6161"] bytearray
  ["L", [spec...]] list ["T", [spec...]] tuple
  ["D", [[kspec, vspec]...]] dict   ["S", [spec...]] set   ["F", [spec...]] frozenset
  ["O", "Point"|"Slotted"|"Node", {attr: spec}] instance of vlib.userclasses.<cls>
  ["A", n, spec] define alias slot n for the object built from spec (mutable containers/objects)
  ["R", n] reference to alias slot n (shared reference, or a cycle when used inside its own definition)
  ["Z", kind, size, seedint] big payload: kind in bytes|str|list of that size
  ["d", "1.5"|"NaN"] decimal.Decimal
  numpy values (numpy is imported when the first of them is built):
  ["t", descr] numpy dtype (descr: a string, or a nested list for structured dtypes, see gen_np.np_dtype)
  ["g", "int64", "1"] numpy scalar np.int64(1)
  ["N", dtype, shape, "C"|"F"|"Z", seed] C- or Fortran-contiguous array with seeded content (gen_np.make); "Z": all zero bytes
  a third element on D / S / F names a SUBCLASS the container is an instance of: ["D", items, "UDict"|"defaultdict"|"OrderedDict"],
  ["S", items, "USet"], ["F", items, "UFrozenSet"] (OrderedDict is always built in spec order: the order is part of its value)
"""

import collections
import decimal
import math
import random

from vlib import userclasses

LEAVES = [
    ["i", "0"], ["i", "1"], ["i", "-1"], ["i", "-2"], ["i", "2"], ["i", str(2 ** 70)], ["i", "255"], ["i", "256"],
    ["i", str(-2 ** 31)], ["i", str(2 ** 31)], ["i", str(2 ** 63)],
    ["f", "1.0"], ["f", "0.0"], ["f", "1.5"], ["f", "-1.0"], ["f", "inf"], ["f", "1e300"], ["f", "2.0"],
    ["b", 1], ["b", 0], ["n"],
    ["s", "a"], ["s", "1"], ["s", ""], ["s", "abc"], ["s", "b"], ["s", "é"], ["s", "a" * 300], ["s", "None"], ["s", "True"],
    ["y", "61"], ["y", ""], ["y", "31"], ["y", "616263"], ["y", "00ff"],
    ["c", "1.0", "0.0"], ["c", "0.0", "1.0"],
]
HASHABLE_KINDS = "ifbnsycTF"


SUBCLASSES = {"D": ["UDict", "defaultdict", "OrderedDict"], "S": ["USet"], "F": ["UFrozenSet"]}


def container(spec):
    """the (empty) container a D / S / F spec denotes: the builtin type, or the subclass named by its third element"""
    name = spec[2] if len(spec) > 2 else None
    if name is None:
        return {"D": dict, "S": set, "F": frozenset}[spec[0]]
    if name == "defaultdict":
        return lambda *a: collections.defaultdict(None, *a)
    if name == "OrderedDict":
        return collections.OrderedDict
    return getattr(userclasses, name)


def gen_spec(rng, depth, hashable=False, objects=False, width=4):
    """random spec; hashable=True restricts to what can be a dict key / set member"""
    spec = _gen_spec(rng, depth, hashable, objects, width)
    # one container in 16 is an instance of a subclass of dict / set / frozenset (a frozenset subclass can also be a key or a member)
    if spec[0] in "DSF" and len(spec) == 2 and rng.random() < 1 / 16:
        spec = spec + [rng.choice(SUBCLASSES[spec[0]])]
    return spec


def _gen_spec(rng, depth, hashable=False, objects=False, width=4):
    if depth <= 0 or rng.random() < 0.35:
        return rng.choice(LEAVES)
    kinds = ["T", "F"] if hashable else ["L", "T", "D", "S", "F", "L", "D", "B"] + (["O"] if objects else [])
    k = rng.choice(kinds)
    n = rng.choice([0, 1, 2, 3, width])
    if k in "LT":
        return [k, [gen_spec(rng, depth - 1, hashable or False, objects, width) for _ in range(n)]]
    if k in "SF":
        return [k, distinct([gen_spec(rng, depth - 1, True, False, width) for _ in range(n)])]
    if k == "D":
        keys = distinct([gen_spec(rng, depth - 1, True, False, width) for _ in range(n)])
        return ["D", [[kk, gen_spec(rng, depth - 1, False, objects, width)] for kk in keys]]
    if k == "B":
        return ["B", rng.choice(["", "61", "00ff00", "616263"])]
    if k == "O":
        cls = rng.choice(["Point", "Slotted", "Node"])
        attrs = {"Point": ["x", "y"], "Slotted": ["a", "b"], "Node": ["val", "next"]}[cls]
        return ["O", cls, {a: gen_spec(rng, depth - 1, False, objects, width) for a in attrs}]
    raise AssertionError(k)


def distinct(specs):
    """drop specs whose built values are == to an earlier one (1, 1.0, True ...)"""
    out, vals = [], []
    for s in specs:
        v = build(s)
        try:
            if any(v == w and hash(v) == hash(w) for w in vals):
                continue
        except TypeError:
            continue
        if isinstance(v, float) and math.isnan(v):
            continue
        vals.append(v)
        out.append(s)
    return out


def build(spec, perm=None, slots=None, strpool=None):
    """Build a fresh object.  perm: random.Random used to permute the insertion
    order of dict / set / frozenset parts (None = spec order).  strpool: a dict;
    when given, equal str/bytes leaves are one shared object instead of
    distinct equal objects."""
    if slots is None:
        slots = {}
    if strpool is not None:
        return _build_pooled(spec, perm, slots, strpool)
    k = spec[0]
    if k == "i":
        return int(spec[1])
    if k == "f":
        return float(spec[1])
    if k == "b":
        return bool(spec[1])
    if k == "n":
        return None
    if k == "s":
        return "".join(list(spec[1]))  # a new string object each time
    if k == "y":
        return bytes(bytearray.fromhex(spec[1]))
    if k == "c":
        return complex(float(spec[1]), float(spec[2]))
    if k == "B":
        return bytearray.fromhex(spec[1])
    if k == "L":
        return [build(s, perm, slots) for s in spec[1]]
    if k == "T":
        return tuple([build(s, perm, slots) for s in spec[1]])
    if k == "d":
        return decimal.Decimal(spec[1])
    if k in "tgN":
        return build_np(spec)
    if k == "m":
        # a bound method of a fresh instance: ["m", instance tag, method name] - its value is the method AND the instance
        return getattr(userclasses.MethodHolder(build(spec[1], perm, slots)), spec[2])
    if k in "SF":
        items = list(spec[1])
        if perm is not None:
            perm.shuffle(items)
        vals = [build(s, perm, slots) for s in items]
        if k == "S":
            out = container(spec)()
            for v in vals:
                out.add(v)
            return out
        return container(spec)(vals)
    if k == "D":
        items = list(spec[1])
        if perm is not None and spec[2:] != ["OrderedDict"]:
            perm.shuffle(items)
        out = container(spec)()
        for ks, vs in items:
            out[build(ks, perm, slots)] = build(vs, perm, slots)
        return out
    if k == "O":
        cls = getattr(userclasses, spec[1])
        obj = cls.__new__(cls)
        for a, s in spec[2].items():
            setattr(obj, a, build(s, perm, slots))
        return obj
    if k == "A":
        n, inner = spec[1], spec[2]
        ik = inner[0]
        # allocate the container first so that references inside see it (cycles)
        if ik == "L":
            out = []
            slots[n] = out
            out.extend(build(s, perm, slots) for s in inner[1])
            return out
        if ik == "D":
            out = container(inner)()
            slots[n] = out
            for ks, vs in inner[1]:
                out[build(ks, perm, slots)] = build(vs, perm, slots)
            return out
        if ik == "O":
            cls = getattr(userclasses, inner[1])
            out = cls.__new__(cls)
            slots[n] = out
            for a, s in inner[2].items():
                setattr(out, a, build(s, perm, slots))
            return out
        out = build(inner, perm, slots)
        slots[n] = out
        return out
    if k == "R":
        return slots[spec[1]]
    if k == "Z":
        kind, size, seed = spec[1], spec[2], spec[3]
        r = random.Random(seed)
        if kind == "bytes":
            return r.randbytes(size)
        if kind == "zeros":
            return bytes(size)
        if kind == "ab":
            return "ab" * (size // 2)
        if kind == "str":
            return "".join(r.choice("abcdefghij \né") for _ in range(size))
        if kind == "list":
            return [r.randrange(1000) for _ in range(size)]
        if kind == "bytearray":
            return bytearray(r.randbytes(size))
    raise AssertionError(spec)


def build_np(spec):
    import numpy as np
    from vlib import gen_np
    k = spec[0]
    if k == "t":
        return gen_np.np_dtype(spec[1])
    if k == "g":
        return getattr(np, spec[1])(spec[2] if spec[1] in ("str_", "bytes_") else (spec[2] == "True" if spec[1] == "bool_" else
                                    (complex(spec[2]) if spec[1].startswith("complex") else (float(spec[2]) if spec[1].startswith("float") else int(spec[2])))))
    if spec[3] == "Z":          # all zero bytes: arrays of different dtypes / shapes with identical element bytes
        return np.zeros(tuple(spec[2]), dtype=gen_np.np_dtype(spec[1]))
    return gen_np.make(random.Random(spec[4]), spec[1], spec[2], spec[3])[0]


def canon_np(spec):
    """canonical form of a numpy value: what identifies it as a VALUE (dtype with its byte order, shape, element bytes, and - as
    joblib.hash documents - whether it is C or Fortran ordered); two specs that build equal arrays have one canonical form"""
    import hashlib
    v = build_np(spec)
    k = spec[0]
    if k == "t":
        return "t(" + (repr(v.descr) if v.names else v.str) + ("|" + repr(v.shape) if v.subdtype else "") + ")"
    if k == "g":
        return "g(" + type(v).__name__ + ":" + repr(v.item()) + ")"
    order = "C" if v.flags.c_contiguous else "F"
    return "N(" + (repr(v.dtype.descr) if v.dtype.names else v.dtype.str) + "," + repr(v.shape) + "," + order + "," + \
        hashlib.sha1(v.tobytes(order)).hexdigest()[:16] + ")"


def _build_pooled(spec, perm, slots, strpool):
    k = spec[0]
    if k in "sy" or (k == "Z" and spec[1] in ("bytes", "zeros", "str")):
        v = build(spec)
        return strpool.setdefault((k, v), v)
    if k == "t":
        # equal dtype objects: one shared object here, distinct objects (for structured dtypes) in the plain build
        return strpool.setdefault(("t", repr(spec[1])), build(spec))
    if k in "LT":
        vals = [_build_pooled(x, perm, slots, strpool) for x in spec[1]]
        return vals if k == "L" else tuple(vals)
    if k in "SF":
        items = list(spec[1])
        if perm is not None:
            perm.shuffle(items)
        vals = [_build_pooled(x, perm, slots, strpool) for x in items]
        return container(spec)(vals)
    if k == "D":
        items = list(spec[1])
        if perm is not None and spec[2:] != ["OrderedDict"]:
            perm.shuffle(items)
        out = container(spec)()
        for a, b in items:
            out[_build_pooled(a, perm, slots, strpool)] = _build_pooled(b, perm, slots, strpool)
        return out
    return build(spec, perm, slots)


def canon(spec):
    """typed, order-insensitive canonical form (a string)"""
    k = spec[0]
    if k in "SF":
        return k + "".join("<%s>" % c for c in spec[2:]) + "{" + ",".join(sorted(canon(s) for s in spec[1])) + "}"
    if k == "D":
        return "D" + "".join("<%s>" % c for c in spec[2:]) + "{" + ",".join(sorted(canon(a) + ":" + canon(b) for a, b in spec[1])) + "}"
    if k in "LT":
        return k + "[" + ",".join(canon(s) for s in spec[1]) + "]"
    if k == "O":
        return "O<" + spec[1] + ">{" + ",".join(a + "=" + canon(s) for a, s in sorted(spec[2].items())) + "}"
    if k == "f":
        return "f(" + repr(float(spec[1])) + ")"
    if k == "c":
        return "c(" + repr(complex(float(spec[1]), float(spec[2]))) + ")"
    if k == "A":
        return "A%d(" % spec[1] + canon(spec[2]) + ")"
    if k in "tgN":
        return canon_np(spec)
    return k + "(" + ",".join(map(str, spec[1:])) + ")"


# ---------------------------------------------------------------------------
# structural isomorphism of two live objects


def iso(a, b, _map=None, path="$"):
    """None if a and b are equal in value *and* aliasing/recursion structure
    (a bijection between the identities of their mutable parts exists), else a
    short description of the first difference."""
    if _map is None:
        _map = ({}, {})
    fwd, bwd = _map
    if type(a) is not type(b):
        return f"{path}: type {type(a).__name__} vs {type(b).__name__}"
    t = type(a)
    if t in (int, bool, str, bytes, type(None), complex):
        return None if a == b else f"{path}: {a!r:.40} != {b!r:.40}"
    if t is decimal.Decimal:
        return None if str(a) == str(b) else f"{path}: {a!r} != {b!r}"
    if t not in (dict, set, frozenset) and isinstance(a, (dict, set, frozenset)):
        # instance of a subclass: same class (tested above), same content, same instance attributes
        if isinstance(a, collections.OrderedDict) and list(a) != list(b):
            return f"{path}: key order differs"
        base = dict if isinstance(a, dict) else (set if isinstance(a, set) else frozenset)
        if base is not frozenset:
            ia, ib = id(a), id(b)
            fwd, bwd = _map
            if ia in fwd or ib in bwd:
                return None if fwd.get(ia) == ib and bwd.get(ib) == ia else f"{path}: aliasing differs"
            fwd[ia] = ib
            bwd[ib] = ia
        if getattr(a, "default_factory", None) is not getattr(b, "default_factory", None):
            return f"{path}: default_factory differs"
        if base is dict:
            if len(a) != len(b):
                return f"{path}: dict len {len(a)} vs {len(b)}"
            for k in a:
                if k not in b:
                    return f"{path}: key {k!r:.40} missing"
                d = iso(a[k], b[k], _map, f"{path}[{k!r:.20}]")
                if d:
                    return d
        elif base(a) != base(b):
            return f"{path}: set differs"
        if hasattr(a, "__dict__") or hasattr(b, "__dict__"):
            return iso(vars(a), vars(b), _map, path + ".__dict__")
        return None
    if t is float:
        if a == b or (a != a and b != b):
            return None
        return f"{path}: {a!r} != {b!r}"
    mutable = t in (list, dict, set, bytearray) or hasattr(a, "__dict__") or hasattr(t, "__slots__")
    if mutable:
        ia, ib = id(a), id(b)
        if ia in fwd or ib in bwd:
            if fwd.get(ia) == ib and bwd.get(ib) == ia:
                return None
            return f"{path}: aliasing differs"
        fwd[ia] = ib
        bwd[ib] = ia
    if t in (list, tuple):
        if len(a) != len(b):
            return f"{path}: len {len(a)} vs {len(b)}"
        for i, (x, y) in enumerate(zip(a, b)):
            d = iso(x, y, _map, f"{path}[{i}]")
            if d:
                return d
        return None
    if t is bytearray:
        return None if a == b else f"{path}: bytearray differs"
    if t in (set, frozenset):
        return None if a == b else f"{path}: set differs {sorted(map(repr, a ^ b))[:3]}"
    if t is dict:
        if len(a) != len(b):
            return f"{path}: dict len {len(a)} vs {len(b)}"
        for k in a:
            if k not in b:
                return f"{path}: key {k!r:.40} missing"
            d = iso(a[k], b[k], _map, f"{path}[{k!r:.20}]")
            if d:
                return d
        return None
    if hasattr(t, "__slots__") and not hasattr(a, "__dict__"):
        for s in t.__slots__:
            ha, hb = hasattr(a, s), hasattr(b, s)
            if ha != hb:
                return f"{path}.{s}: presence differs"
            if ha:
                d = iso(getattr(a, s), getattr(b, s), _map, f"{path}.{s}")
                if d:
                    return d
        return None
    if hasattr(a, "__dict__"):
        return iso(vars(a), vars(b), _map, path + ".__dict__")
    try:
        import numpy as np
        if isinstance(a, np.ndarray):
            if a.dtype != b.dtype or a.shape != b.shape:
                return f"{path}: array dtype/shape {a.dtype}{a.shape} vs {b.dtype}{b.shape}"
            if a.dtype.hasobject:
                return iso(a.ravel().tolist(), b.ravel().tolist(), _map, path + ".tolist()")
            return None if a.tobytes() == b.tobytes() else f"{path}: array bytes differ"
    except ImportError:
        pass
    return None if a == b else f"{path}: {a!r:.40} != {b!r:.40}"


# ---------------------------------------------------------------------------
# shared references, cycles and big payloads


def add_aliases(spec, rng, max_slots=2):
    """Return a copy of spec in which up to max_slots mutable parts (list,
    dict, user object) are named ['A', n, part] and ['R', n] references to them
    are inserted later in build order (shared reference) or inside the part
    itself (cycle)."""
    import copy
    spec = copy.deepcopy(spec)
    # collect (parent_list, index) positions of value slots in build order
    positions = []

    def walk(s, parent, idx):
        positions.append((s, parent, idx))
        k = s[0]
        if k in "LT":
            for i, c in enumerate(s[1]):
                walk(c, s[1], i)
        elif k == "D":
            for pair in s[1]:
                walk(pair[1], pair, 1)
        elif k == "O":
            for a in sorted(s[2]):
                walk(s[2][a], s[2], a)

    walk(spec, None, None)
    cands = [(i, p) for i, p in enumerate(positions) if p[0][0] in "LDO" and p[1] is not None]
    rng.shuffle(cands)
    slot = 0
    for i, (s, parent, idx) in cands[:max_slots]:
        inner = copy.deepcopy(s)
        mode = rng.choice(["shared", "cycle", "both"])
        if mode in ("cycle", "both"):
            if inner[0] == "L":
                inner[1].insert(rng.randint(0, len(inner[1])), ["R", slot])
            elif inner[0] == "D":
                inner[1].append([["s", "self%d" % slot], ["R", slot]])
            else:
                a = sorted(inner[2])[-1]
                inner[2][a] = ["R", slot]
        parent[idx] = ["A", slot, inner]
        if mode in ("shared", "both"):
            # a later sibling position in build order that is a plain leaf
            later = [(s2, p2, i2) for j, (s2, p2, i2) in enumerate(positions)
                     if j > i and p2 is not None and s2[0] in "ifbnsyc" and isinstance(p2, (list, dict))]
            later = [x for x in later if not (isinstance(x[1], list) and len(x[1]) == 2 and x[2] == 0)]
            if later:
                s2, p2, i2 = rng.choice(later)
                try:
                    if p2[i2] is s2:
                        p2[i2] = ["R", slot]
                except (KeyError, IndexError):
                    pass
        slot += 1
    return spec


def refs_valid(spec, defined=None):
    """every ['R', n] must come after (or inside) its ['A', n, ...] in build order"""
    if defined is None:
        defined = set()
    k = spec[0]
    if k == "R":
        return spec[1] in defined
    if k == "A":
        defined.add(spec[1])
        return refs_valid(spec[2], defined)
    if k in "LTSF":
        return all(refs_valid(c, defined) for c in spec[1])
    if k == "D":
        return all(refs_valid(a, defined) and refs_valid(b, defined) for a, b in spec[1])
    if k == "O":
        return all(refs_valid(spec[2][a], defined) for a in spec[2])
    return True


BIG_SIZES = [8191, 8192, 8193, 16384, 65535, 65536, 65537, (1 << 20) - 1, 1 << 20, (1 << 20) + 1]


def gen_big(rng, max_size=(1 << 20) + 1):
    size = rng.choice([s for s in BIG_SIZES if s <= max_size])
    kind = rng.choice(["bytes", "zeros", "str", "bytearray", "list"])
    if kind == "list":
        size = min(size, 70000)
    if kind == "str":
        size = min(size, 70000)
    return ["Z", kind, size, rng.randrange(1 << 30)]
