"""A Parallel backend whose completion schedule is owned by the check.

Plugged in through joblib's public backend API (Parallel(backend=instance)), so
every schedule it produces is one a real backend can produce.  `submit` only
records the batch; *when* it runs, *which thread* invokes the completion
callback, how many callbacks are in flight, and whether the callback runs
synchronously inside submit (what concurrent.futures does when the future has
already finished) is decided by the controller:

* stepped mode: the check calls be.complete(fut, ...) itself and every step ends
  in a quiescent state (all issued callbacks returned);
* auto mode: 1-3 controller threads complete pending batches in seeded random
  order, optionally before submit returns, optionally late (after an abort).

Batches are executed for real (fut.func()), so results and exceptions are the
real ones.
"""

import collections
import sys
import threading
import time
import traceback


def _joblib():
    from joblib._parallel_backends import AutoBatchingMixin, ParallelBackendBase
    return AutoBatchingMixin, ParallelBackendBase


class Trace:
    """thread-safe event log; counters are read under the same lock"""

    def __init__(self):
        self.lock = threading.Lock()
        self.events = []
        self.n = collections.Counter()

    def add(self, kind, **kw):
        with self.lock:
            kw["k"] = kind
            kw["t"] = threading.get_ident()
            kw["seq"] = len(self.events)
            self.events.append(kw)
            self.n[kind] += 1
            return kw

    def snapshot(self):
        with self.lock:
            return list(self.events)


class Fut:
    __slots__ = ("func", "cb", "res", "exc", "call_no", "bid", "items", "done", "cb_returned", "submit_thread", "cancelled", "finished")

    def __init__(self, func, cb, call_no, bid, items):
        self.func, self.cb, self.call_no, self.bid, self.items = func, cb, call_no, bid, items
        self.res = self.exc = None
        self.done = False
        self.cb_returned = threading.Event()
        self.finished = threading.Event()
        self.submit_thread = threading.get_ident()
        self.cancelled = False

    def get(self, timeout=None):
        """what joblib calls (through backend.retrieve_result) on backends WITHOUT a retrieval callback: block until the
        batch has run, return its results or raise its exception"""
        if not self.finished.wait(timeout):
            raise TimeoutError()
        if self.exc is not None:
            raise self.exc
        return self.res


def make_backend_class():
    AutoBatchingMixin, ParallelBackendBase = _joblib()

    class ScriptedBackend(AutoBatchingMixin, ParallelBackendBase):
        supports_retrieve_callback = True
        uses_threads = True
        supports_sharedmem = True

        def __init__(self, trace=None, item_id=None, sync_in_submit=None, retrieve_callback=True, **kw):
            super().__init__(**kw)
            # retrieve_callback=False: the plain flavour of joblib's backend API (ParallelBackendBase's default, what a
            # third-party backend written against the documented minimum gets): the completion callback only dispatches
            # more work, results are fetched by the caller's thread with retrieve_result() in submission order
            self.supports_retrieve_callback = retrieve_callback
            self.trace = trace or Trace()
            self.cv = threading.Condition()
            self.pending = []          # submitted, not yet completed
            self.late = []             # aborted batches that may still "finish"
            self.call_no = 0
            self.next_bid = 0
            self.in_flight_callbacks = 0
            self.submit_depth = 0
            self.item_id = item_id or (lambda item: item[1][0])
            # callable(fut) -> bool: run + complete synchronously inside submit
            self.sync_in_submit = sync_in_submit
            self.hooks = []            # callables(event) for controllers
            self.aborts = 0
            self.on_batch_completed = None   # optional callable(backend, batch_size), may block (scheduling by the check)
            self.virtual_duration = None   # optional callable(batch_size, real_duration) -> the duration reported to the auto-batching heuristic
            self.during_abort = None   # optional callable(backend) run once at the start of the next abort_everything
            self.parallel = None
            self.errors = []

        # ---- joblib backend API -------------------------------------------
        def effective_n_jobs(self, n_jobs):
            if n_jobs == 0:
                raise ValueError("n_jobs == 0 in Parallel has no meaning")
            return n_jobs if n_jobs and n_jobs > 0 else 4

        def configure(self, n_jobs=1, parallel=None, **kw):
            self.parallel = parallel
            for h in self.hooks:
                h(("configure", None))
            return self.effective_n_jobs(n_jobs)

        def batch_completed(self, batch_size, duration):
            # joblib calls this from a completion callback after the result was registered and before the callback
            # accounts the completion and dispatches more: a check may park the callback here
            hook = self.on_batch_completed
            if hook is not None:
                hook(self, batch_size)
            if self.virtual_duration is not None:
                duration = self.virtual_duration(batch_size, duration)
            return super().batch_completed(batch_size, duration)

        def compute_batch_size(self):
            b = super().compute_batch_size()
            self.trace.add("batch_size", b=b)
            return b

        def start_call(self):
            with self.cv:
                self.call_no += 1
            self.trace.add("start_call", call=self.call_no)

        def stop_call(self):
            self.trace.add("stop_call", call=self.call_no)

        def terminate(self):
            self.trace.add("terminate")

        def submit(self, func, callback=None):
            items = [self.item_id(it) for it in func.items]
            with self.cv:
                bid = self.next_bid
                self.next_bid += 1
                fut = Fut(func, callback, self.call_no, bid, items)
            self.trace.add("submit", bid=bid, items=items, call=fut.call_no, size=len(items))
            if self.sync_in_submit is not None and self.submit_depth < 25 and self.sync_in_submit(fut):
                # like Future.add_done_callback on an already finished future:
                # the callback runs in the submitting thread, which holds
                # Parallel's re-entrant lock
                self.submit_depth += 1
                try:
                    self._run(fut)
                    self._callback(fut, sync=True)
                finally:
                    self.submit_depth -= 1
                return fut
            with self.cv:
                self.pending.append(fut)
                self.cv.notify_all()
            for h in self.hooks:
                h(("submitted", fut))
            return fut

        def retrieve_result_callback(self, fut):
            if fut.exc is not None:
                raise fut.exc
            return fut.res

        def abort_everything(self, ensure_ready=True):
            hook = self.during_abort
            if hook is not None:
                # a graceful abort: a running batch may finish (and fire its callback) while the abort is in progress
                self.during_abort = None
                hook(self)
            with self.cv:
                self.aborts += 1
                for f in self.pending:
                    f.cancelled = True
                self.late.extend(self.pending)
                del self.pending[:]
                self.cv.notify_all()
            self.trace.add("abort", call=self.call_no)

        # ---- controller API -------------------------------------------------
        def _run(self, fut):
            if fut.done:
                return
            try:
                fut.res = fut.func()
            except BaseException as e:  # noqa
                fut.exc = e
            fut.done = True
            fut.finished.set()

        def _callback(self, fut, sync=False):
            with self.cv:
                self.in_flight_callbacks += 1
            self.trace.add("complete", bid=fut.bid, items=fut.items, call=fut.call_no, sync=sync,
                           failed=fut.exc is not None)
            try:
                fut.cb(fut)
            except BaseException:  # noqa
                self.errors.append(traceback.format_exc())
            finally:
                with self.cv:
                    self.in_flight_callbacks -= 1
                    self.cv.notify_all()
                self.trace.add("callback_returned", bid=fut.bid)
                fut.cb_returned.set()

        def take(self, fut):
            """remove fut from pending/late; False if it is not there any more"""
            with self.cv:
                for lst in (self.pending, self.late):
                    if fut in lst:
                        lst.remove(fut)
                        return True
            return False

        def complete(self, fut, thread=True, wait=True, timeout=30):
            """run the batch and deliver its completion callback (in a new
            thread unless thread=False); with wait, return once the callback
            has returned (quiescent step) - False on watchdog."""
            if not self.take(fut):
                return None
            self._run(fut)
            if not thread:
                self._callback(fut)
                return True
            t = threading.Thread(target=self._callback, args=(fut,), daemon=True)
            t.start()
            if wait:
                return fut.cb_returned.wait(timeout)
            return t

        def pending_snapshot(self):
            with self.cv:
                return list(self.pending)

        def late_snapshot(self):
            with self.cv:
                return list(self.late)

        def wait_pending(self, n=1, timeout=5.0, stable=0.0):
            """wait until at least n batches are pending"""
            end = time.monotonic() + timeout
            with self.cv:
                while len(self.pending) < n:
                    left = end - time.monotonic()
                    if left <= 0:
                        return False
                    self.cv.wait(min(left, 0.05))
            return True

        def quiescent(self):
            with self.cv:
                return self.in_flight_callbacks == 0

    return ScriptedBackend


_CLS = []


def ScriptedBackend(*a, **kw):
    if not _CLS:
        _CLS.append(make_backend_class())
    return _CLS[0](*a, **kw)


class AutoController:
    """1-3 threads completing pending batches in seeded random order"""

    def __init__(self, be, rng, nthreads=1, late_prob=0.5, jitter=True, hold=None, late_at_configure=0.0):
        self.late_at_configure = late_at_configure
        self.be, self.rng, self.nthreads = be, rng, nthreads
        self.late_prob, self.jitter = late_prob, jitter
        self.hold = hold or (lambda fut: False)   # batches that never complete
        self.stop = False
        self.threads = []
        self.lock = threading.Lock()

    def on_event(self, ev):
        """late completions may arrive at any time - in particular while the
        next call is being set up (backend.configure runs between the reset of
        Parallel's run tracking and the start of the call)"""
        if ev[0] != "configure" or not self.be.late:
            return
        with self.lock:
            go = self.rng.random() < self.late_at_configure
        if not go:
            return
        with self.be.cv:
            futs = list(self.be.late)
            del self.be.late[:]

        def deliver():
            for f in futs:
                self.be._run(f)
                self.be._callback(f)

        t = threading.Thread(target=deliver, daemon=True)
        t.start()
        t.join(10)

    def start(self):
        self.stop = False
        if self.on_event not in self.be.hooks:
            self.be.hooks.append(self.on_event)
        self.threads = [threading.Thread(target=self._loop, daemon=True) for _ in range(self.nthreads)]
        for t in self.threads:
            t.start()

    def shutdown(self):
        with self.be.cv:
            self.stop = True
            self.be.cv.notify_all()
        for t in self.threads:
            t.join(10)

    def _pick(self):
        be = self.be
        ready = [f for f in be.pending if not self.hold(f)]
        with self.lock:
            if be.late and (not ready or self.rng.random() < self.late_prob):
                return be.late.pop(self.rng.randrange(len(be.late)))
            if ready:
                f = self.rng.choice(ready)
                be.pending.remove(f)
                return f
        return None

    def _loop(self):
        be = self.be
        while True:
            with be.cv:
                f = None
                while not self.stop:
                    f = self._pick()
                    if f is not None:
                        break
                    be.cv.wait(0.02)
                if f is None:
                    return
            if self.jitter:
                with self.lock:
                    d = self.rng.choice([0, 0, 0, 0.0002, 0.001])
                if d:
                    time.sleep(d)
            be._run(f)
            be._callback(f)


class Src:
    """instrumented input: an iterator *class* (re-entry is detected instead of
    turned into 'generator already executing'), logs every pull"""

    def __init__(self, n, make_item, trace, widen=0.0002, fail_at=None, fail_exc=None, completed=None):
        self.n, self.make_item, self.trace = n, make_item, trace
        self.i = 0
        self.busy = 0
        self.reentered = 0
        self.widen = widen
        self.fail_at, self.fail_exc = fail_at, fail_exc
        self.completed = completed or (lambda: None)
        self.max_gap = 0
        self.lock = threading.Lock()
        self.gate = None    # optional callable(i) run at the start of a pull (may block: the check's own scheduling)

    def __iter__(self):
        return self

    def __next__(self):
        with self.lock:
            self.busy += 1
            if self.busy > 1:
                self.reentered += 1
        try:
            i = self.i
            if i >= self.n:
                raise StopIteration
            if self.gate is not None:
                self.gate(i)
            if self.widen:
                time.sleep(self.widen)
            if self.fail_at is not None and i == self.fail_at:
                self.i = self.n   # a failed iterator is exhausted
                self.trace.add("pull_fail", i=i)
                raise self.fail_exc
            self.i = i + 1
            c = self.completed()
            self.trace.add("pull", i=i, completed=c)
            if c is not None:
                self.max_gap = max(self.max_gap, i + 1 - c)
            return self.make_item(i)
        finally:
            with self.lock:
                self.busy -= 1


def stacks():
    out = {}
    for tid, fr in sys._current_frames().items():
        out[tid] = "".join(traceback.format_stack(fr)[-6:])
    return out
