"""task of C17's effect layer (importable from workers)"""


def where(a):
    """(file the argument is mapped from or None, its mmap mode or None, sum)"""
    import numpy as np
    m = a
    while m is not None and not isinstance(m, np.memmap):
        m = getattr(m, "base", None)
    return [getattr(m, "filename", None) and str(m.filename), getattr(m, "mode", None), float(a.sum())]
