"""Logical resource budgets: executed-lines budget (sys.monitoring LINE events on
chosen modules' code objects), CPU-time budget (ITIMER_VIRTUAL) and an
address-space cap.  Exceeding a budget is a *logical* non-termination /
resource-exhaustion witness - no wall clock is involved."""

import resource
import signal
import sys
import types

TOOL = 4


class StepBudgetExceeded(BaseException):
    pass


class CpuBudgetExceeded(BaseException):
    pass


def code_objects(mod):
    seen, out = set(), []

    def walk(co):
        if co in seen:
            return
        seen.add(co)
        out.append(co)
        for c in co.co_consts:
            if isinstance(c, types.CodeType):
                walk(c)

    for v in vars(mod).values():
        if isinstance(v, types.FunctionType) and v.__module__ == mod.__name__:
            walk(v.__code__)
        elif isinstance(v, type) and v.__module__ == mod.__name__:
            for m in vars(v).values():
                f = getattr(m, "__func__", m)
                if isinstance(f, types.FunctionType):
                    walk(f.__code__)
                elif isinstance(f, property):
                    for g in (f.fget, f.fset, f.fdel):
                        if g is not None:
                            walk(g.__code__)
    return out


class LineBudget:
    """with LineBudget(mods) as b: b.arm(limit); ...; used = b.disarm()"""

    def __init__(self, modules):
        self.cos = [co for m in modules for co in code_objects(m)]
        self.n = 0
        self.limit = None
        self.total = 0
        self.where = None

    def _on_line(self, code, line):
        self.n += 1
        if self.limit is not None and self.n > self.limit:
            self.limit = None
            self.where = f"{code.co_name}:{line}"
            raise StepBudgetExceeded(self.where)

    def __enter__(self):
        mon = sys.monitoring
        mon.use_tool_id(TOOL, "vbudget")
        mon.register_callback(TOOL, mon.events.LINE, self._on_line)
        for co in self.cos:
            mon.set_local_events(TOOL, co, mon.events.LINE)
        return self

    def __exit__(self, *a):
        mon = sys.monitoring
        for co in self.cos:
            mon.set_local_events(TOOL, co, 0)
        mon.register_callback(TOOL, mon.events.LINE, None)
        mon.free_tool_id(TOOL)

    def arm(self, limit):
        self.n = 0
        self.limit = limit

    def disarm(self):
        self.limit = None
        self.total += self.n
        return self.n


def cap_address_space(nbytes):
    soft, hard = resource.getrlimit(resource.RLIMIT_AS)
    resource.setrlimit(resource.RLIMIT_AS, (nbytes, hard))


class CpuBudget:
    """ITIMER_PROF based: counts this process's own CPU time (user + system),
    so machine load cannot trip it; main thread only."""

    def __init__(self):
        signal.signal(signal.SIGPROF, self._fire)
        self.fired = 0

    def _fire(self, signum, frame):
        self.fired += 1
        raise CpuBudgetExceeded(f"in {frame.f_code.co_name}:{frame.f_lineno}")

    def arm(self, seconds):
        signal.setitimer(signal.ITIMER_PROF, seconds)

    def disarm(self):
        signal.setitimer(signal.ITIMER_PROF, 0)
