"""pytest plugin: run the repository's OWN tests with runtime contracts (icontract) on
real joblib functions, as an extra workload for C07 and C18.

  pytest -p vlib.contracts_plugin joblib/test/test_func_inspect.py joblib/test/test_memory.py

Contracts record and return True (they never abort the test they observe); the
evaluation / violation counts are written to $VERIF_CONTRACT_OUT at session end.
References bound before decoration (`from .func_inspect import filter_args` in
joblib/memory.py) are re-pointed, and zero evaluations is reported as such.
"""

import inspect
import json
import os

import icontract

STATE = dict(filter_args_evals=0, filter_args_in_domain=0, filter_args_violations=[],
             items_to_delete_evals=0, items_to_delete_violations=[])


class ContractBroken(Exception):
    pass


def _expected(func, ignore_lst, args, kwargs):
    if not (inspect.ismethod(func) or inspect.isfunction(func)):
        return None
    try:
        sig = inspect.signature(func)
        ba = sig.bind(*args, **kwargs)
    except (TypeError, ValueError):
        return None
    ba.apply_defaults()
    out = {}
    if inspect.ismethod(func):
        out[next(iter(inspect.signature(func.__func__).parameters))] = func.__self__
    for name, p in sig.parameters.items():
        if p.kind is p.VAR_POSITIONAL:
            out["*"] = list(ba.arguments[name])
        elif p.kind is p.VAR_KEYWORD:
            out["**"] = dict(ba.arguments[name])
        else:
            out[name] = ba.arguments[name]
    for k in ignore_lst:
        if k not in out:
            return None   # joblib documents a ValueError for unknown names
        out.pop(k)
    return out


def filter_args_binds_like_python(func, ignore_lst, args, kwargs, result):
    STATE["filter_args_evals"] += 1
    try:
        exp = _expected(func, ignore_lst, tuple(args), dict(kwargs))
        if exp is None:
            return True
        STATE["filter_args_in_domain"] += 1
        same = set(exp) == set(result) and all(exp[k] is result[k] or exp[k] == result[k] for k in exp)
        if not same:
            STATE["filter_args_violations"].append(dict(func=getattr(func, "__qualname__", repr(func)), sig=str(inspect.signature(func)),
                                                        args=repr(args)[:200], kwargs=repr(kwargs)[:200], ignore=list(ignore_lst),
                                                        expected=repr(exp)[:300], got=repr(result)[:300]))
    except Exception as e:  # noqa: a broken oracle must not break the observed test
        STATE.setdefault("oracle_errors", []).append(repr(e)[:200])
    return True


def lru_prefix(self, bytes_limit, items_limit, age_limit, result):
    """(1) survivors meet the limits (2) evicted are not younger than survivors (3) the eviction is minimal"""
    STATE["items_to_delete_evals"] += 1
    try:
        import datetime
        from joblib.disk import memstr_to_bytes
        items = self.get_items()
        if isinstance(bytes_limit, str):
            bytes_limit = memstr_to_bytes(bytes_limit)
        ev = {i.path for i in result}
        S = [i for i in items if i.path not in ev]
        E = [i for i in items if i.path in ev]
        why = None
        if bytes_limit is not None and sum(i.size for i in S) > bytes_limit:
            why = "bytes limit not met"
        elif items_limit is not None and len(S) > items_limit:
            why = "items limit not met"
        elif E and S and max(i.last_access for i in E) > min(i.last_access for i in S):
            why = "not an LRU prefix"
        elif E and age_limit is None:
            last = max(E, key=lambda i: i.last_access)
            S2 = S + [last]
            if not ((bytes_limit is not None and sum(i.size for i in S2) > bytes_limit) or (items_limit is not None and len(S2) > items_limit)):
                why = "not minimal"
        if why:
            STATE["items_to_delete_violations"].append(dict(why=why, limits=[repr(bytes_limit), repr(items_limit), repr(age_limit)],
                                                            items=[(i.size, str(i.last_access)) for i in items], evicted=len(E)))
    except Exception as e:  # noqa
        STATE.setdefault("oracle_errors", []).append(repr(e)[:200])
    return True


def pytest_configure(config):
    import joblib._store_backends as sb
    import joblib.func_inspect as fi
    import joblib.memory as jm

    wrapped = icontract.ensure(filter_args_binds_like_python, error=ContractBroken)(fi.filter_args)
    fi.filter_args = wrapped
    if getattr(jm, "filter_args", None) is not None:
        jm.filter_args = wrapped       # reference bound by `from .func_inspect import filter_args`
    sb.StoreBackendMixin._get_items_to_delete = icontract.ensure(lru_prefix, error=ContractBroken)(sb.StoreBackendMixin._get_items_to_delete)


def pytest_sessionfinish(session, exitstatus):
    out = os.environ.get("VERIF_CONTRACT_OUT")
    if out:
        with open(out, "w") as f:
            json.dump(dict(STATE, exitstatus=int(exitstatus)), f)
