"""dtype x shape x layout x subclass generator for numpy arrays (specs are JSON-able)"""
import numpy as np

DTYPES = [
    "bool", "i1", "u1", "<i2", ">i2", "<u2", "<i4", ">i4", "<u4", "<i8", ">i8", "<u8", "<f2", ">f2", "<f4", ">f4", "<f8", ">f8", "<c8", ">c16",
    "S5", "<U3", ">U3", "<M8[s]", ">M8[D]", "<m8[ms]", "<M8[ns]", "O",
    [["a", "<i4"], ["b", ">f8"]],
    [["x", "u1"], ["y", [["p", "<i2"], ["q", ">i2"]]], ["z", "S3"]],
    [["v", "<f4", [2, 2]], ["w", "<U2"]],
]
SHAPES = [[], [0], [0, 3], [1], [7], [3, 4], [2, 3, 4], [1, 1], [5, 1], [33]]
LAYOUTS = ["C", "F", "sliced", "transposed", "offset-view", "negative-stride", "broadcast"]


SCALARS = ["i2", "u2", "i4", "u4", "i8", "f2", "f4", "f8", "c8", "U2", "M8[s]", "m8[ms]"]


def rand_struct(rng, depth=0):
    """a structured dtype spec with a seeded byte order per leaf (all-native, all-swapped, mixed at any level)"""
    order = rng.choice(["<", ">", "mixed", "mixed"])
    fields = []
    for i in range(rng.randint(1, 4)):
        r = rng.random()
        name = "f%d" % i
        if r < 0.25 and depth < 2:
            fields.append([name, rand_struct(rng, depth + 1)])
        elif r < 0.35:
            fields.append([name, rng.choice(["u1", "S3", "bool"])])
        else:
            o = order if order != "mixed" else rng.choice("<>")
            f = [name, o + rng.choice(SCALARS)]
            if rng.random() < 0.15:
                f.append([2] if rng.random() < 0.5 else [2, 2])
            fields.append(f)
    return fields


def pick_dtype(rng, allow_object=True):
    if rng.random() < 0.25:
        return rand_struct(rng)
    return rng.choice([x for x in DTYPES if allow_object or x != "O"])


def np_dtype(d):
    if isinstance(d, list):
        return np.dtype([tuple(x[:2]) + ((tuple(x[2]),) if len(x) > 2 else ()) if not isinstance(x[1], list)
                         else (x[0], np_dtype(x[1])) for x in d])
    return np.dtype(d)


def fill(rng, dt, n):
    """1-d array of n elements of dtype dt with seeded content"""
    dt = np_dtype(dt) if not isinstance(dt, np.dtype) else dt
    if dt.kind == "O":
        pool = [None, 1, 2.5, "txt", b"by", (1, 2), [1, [2]], {"k": 1}, True, 2 ** 70]
        a = np.empty(n, dtype=object)
        for i in range(n):
            a[i] = pool[rng.randrange(len(pool))]
        return a
    if dt.names:
        a = np.zeros(n, dtype=dt)
        for name in dt.names:
            fdt = dt[name]
            if fdt.names:
                a[name] = fill(rng, fdt, n)
            elif fdt.subdtype is not None:
                base, shp = fdt.subdtype
                a[name] = fill(rng, base, n * int(np.prod(shp))).reshape((n,) + tuple(shp))
            else:
                a[name] = fill(rng, fdt, n)
        return a
    if dt.kind == "b":
        return np.array([rng.random() < 0.5 for _ in range(n)], dtype=dt)
    if dt.kind in "iu":
        info = np.iinfo(dt)
        return np.array([rng.choice([info.min, info.max, 0, 1, rng.randint(info.min, info.max)]) for _ in range(n)], dtype=dt)
    if dt.kind == "f":
        vals = [rng.choice([0.0, -0.0, 1.5, float("inf"), float("nan"), rng.uniform(-1e3, 1e3)]) for _ in range(n)]
        return np.array(vals, dtype="f8").astype(dt)
    if dt.kind == "c":
        return (np.array([rng.uniform(-9, 9) for _ in range(n)]) + 1j * np.array([rng.uniform(-9, 9) for _ in range(n)])).astype(dt)
    if dt.kind == "S":
        return np.array([bytes(rng.choice(b"abc\x00") for _ in range(rng.randint(0, dt.itemsize))) for _ in range(n)], dtype=dt)
    if dt.kind == "U":
        return np.array(["".join(rng.choice("aé中z") for _ in range(rng.randint(0, dt.itemsize // 4))) for _ in range(n)], dtype=dt)
    if dt.kind in "Mm":
        vals = np.array([rng.randint(-10 ** 6, 10 ** 9) for _ in range(n)], dtype="i8")
        out = vals.view(np.dtype(dt.str.replace(">", "<"))).astype(dt)
        if n and rng.random() < 0.3:
            out[rng.randrange(n)] = np.datetime64("NaT") if dt.kind == "M" else np.timedelta64("NaT")
        return out
    raise AssertionError(dt)


def make(rng, dtype, shape, layout):
    """array with the given dtype/shape and memory layout; returns (array, effective layout)"""
    dt = np_dtype(dtype)
    shape = tuple(shape)
    n = int(np.prod(shape)) if shape else 1
    if layout == "C" or len(shape) == 0:
        return fill(rng, dt, n).reshape(shape), "C"
    if layout == "F":
        return np.asfortranarray(fill(rng, dt, n).reshape(shape)), "F"
    if layout == "transposed":
        return fill(rng, dt, n).reshape(shape[::-1]).T, "transposed"
    if layout == "sliced":
        if not shape[0]:
            return fill(rng, dt, 0).reshape(shape), "C"
        rest = int(np.prod(shape[1:])) if len(shape) > 1 else 1
        big = fill(rng, dt, (shape[0] * 2 + 2) * rest).reshape((shape[0] * 2 + 2,) + shape[1:])
        return big[1:1 + 2 * shape[0]:2], "sliced"
    if layout == "offset-view":
        big = fill(rng, dt, n + 3)
        return big[3:].reshape(shape), "offset-view"
    if layout == "negative-stride":
        return fill(rng, dt, n).reshape(shape)[::-1], "negative-stride"
    if layout == "broadcast":
        if len(shape) >= 2 and dt.kind != "O":
            row = fill(rng, dt, int(np.prod(shape[1:]))).reshape(shape[1:])
            return np.broadcast_to(row, shape), "broadcast"
        return fill(rng, dt, n).reshape(shape), "C"
    raise AssertionError(layout)


def same_bytes(a, b):
    """element bytes equal (NaN-safe); object arrays compared element-wise"""
    if a.dtype.hasobject:
        return a.shape == b.shape and all(type(x) is type(y) and (x == y) for x, y in zip(a.ravel().tolist(), b.ravel().tolist()))
    return a.shape == b.shape and np.ascontiguousarray(a).tobytes() == np.ascontiguousarray(b).tobytes()


def describe(a):
    return dict(dtype=str(a.dtype), descr=repr(a.dtype.descr) if a.dtype.names else a.dtype.str, shape=list(a.shape),
                native_descr=repr(a.dtype.newbyteorder("=").descr),
                c=bool(a.flags.c_contiguous), f=bool(a.flags.f_contiguous), cls=type(a).__name__)
