"""Importable user classes for the object universe (picklable by reference)."""


class Point:
    def __init__(self, x=None, y=None):
        self.x, self.y = x, y

    def __eq__(self, o):
        return type(o) is Point and vars(self) == vars(o)

    __hash__ = None


class Slotted:
    __slots__ = ("a", "b")

    def __init__(self, a=None, b=None):
        self.a, self.b = a, b

    def __getstate__(self):
        # needed for pickle protocols 0 and 1
        return {s: getattr(self, s) for s in self.__slots__ if hasattr(self, s)}

    def __setstate__(self, state):
        for k, v in state.items():
            setattr(self, k, v)


class Node:
    """linked node: used for shared and cyclic references"""

    def __init__(self, val=None, next=None):
        self.val, self.next = val, next


class MethodHolder:
    """bound methods as cached functions: instance state is part of the key"""

    def __init__(self, tag):
        self.tag = tag

    def transform(self, x=1):
        return (self.tag, x)

    def other(self, x=1):
        return ("other", self.tag, x)


class UDict(dict):
    """a user subclass of dict (pickled through __reduce_ex__: class, state and an iterator over the items)"""


class USet(set):
    """a user subclass of set"""


class UFrozenSet(frozenset):
    """a user subclass of frozenset"""
