"""Shared engine of C02 / C06: generated functions with real source text cached by
Memory, histories of calls in equivalent / near-colliding forms, executed in
one or several fresh processes.

The generated function bodies return a *typed fingerprint* of their bound,
non-ignored arguments, so (a) a value served for other arguments is visible in
the value itself and (b) the fingerprint of the plain call identifies the
equivalence class of the call (the model key).
"""

import json
import os
import random

from vlib import gen_obj, gen_sig, harness

SESSION = os.path.join(harness.VERIF, "checks", "memhist_session.py")

VALUES = [
    ["i", "1"], ["f", "1.0"], ["b", 1], ["i", "0"], ["b", 0], ["f", "0.0"], ["s", "1"], ["y", "31"], ["s", "a"], ["y", "61"], ["n"],
    ["i", "2"], ["i", "-1"], ["s", ""], ["i", str(2 ** 70)],
    ["T", [["i", "1"], ["i", "2"]]], ["L", [["i", "1"], ["i", "2"]]], ["T", [["i", "1"], ["f", "2.0"]]],
    ["D", [[["s", "a"], ["i", "1"]], [["s", "b"], ["i", "2"]]]], ["D", [[["s", "a"], ["i", "1"]], [["s", "b"], ["f", "2.0"]]]],
    ["D", [[["i", "1"], ["s", "x"]], [["s", "1"], ["s", "y"]]]],
    ["S", [["i", "1"], ["i", "2"], ["i", "3"]]], ["F", [["i", "1"], ["i", "2"], ["i", "3"]]], ["S", [["s", "a"], ["s", "b"], ["s", "c"]]],
    ["L", [["D", [[["s", "k"], ["S", [["i", "1"], ["i", "2"]]]]]], ["n"]]],
    ["L", []], ["T", []], ["D", []],
    ["y", "6b65792d31"], ["s", "key-1"], ["L", [["y", "6b65792d31"], ["y", "6b65792d31"]]], ["T", [["s", "key-1"], ["s", "key-1"]]],
    ["D", [[["s", "a"], ["y", "6b65792d31"]], [["s", "b"], ["y", "6b65792d31"]]]],
    # containers whose members sort without an error but not totally (nan compares False with everything): only a digest order is stable
    ["D", [[["T", [["f", "nan"], ["i", "1"]]], ["i", "1"]], [["T", [["f", "0.5"], ["i", "2"]]], ["i", "2"]], [["T", [["f", "1.5"], ["i", "0"]]], ["i", "3"]]]],
    ["S", [["T", [["f", "nan"], ["i", "1"]]], ["T", [["f", "0.5"], ["i", "2"]]], ["T", [["f", "1.5"], ["i", "0"]]], ["T", [["f", "0.25"], ["i", "7"]]]]],
    ["D", [[["f", "nan"], ["s", "x"]], [["f", "0.5"], ["s", "y"]], [["f", "1.5"], ["s", "z"]]]],
    # instances of dict / set subclasses (pickled through __reduce_ex__), with keys that cannot be sorted; decimals (comparing with a
    # NaN raises an ArithmeticError); keys with one digest whose values cannot be sorted
    ["D", [[["s", "a"], ["i", "1"]], [["i", "2"], ["i", "3"]]], "UDict"], ["D", [[["s", "zz"], ["i", "1"]], [["i", "5"], ["i", "3"]]], "UDict"], ["D", [], "UDict"],
    ["D", [[["s", "a"], ["i", "1"]], [["i", "2"], ["i", "3"]]], "defaultdict"], ["D", [[["s", "a"], ["i", "1"]], [["i", "2"], ["i", "4"]]], "defaultdict"],
    ["D", [[["s", "a"], ["i", "1"]], [["i", "2"], ["i", "3"]]], "OrderedDict"], ["D", [[["s", "a"], ["i", "1"]], [["i", "2"], ["i", "3"]]]],
    ["S", [["s", "a"], ["s", "b"], ["s", "c"], ["s", "d"]], "USet"], ["F", [["s", "a"], ["s", "b"], ["s", "c"], ["s", "d"]], "UFrozenSet"], ["S", [["s", "a"], ["s", "b"], ["s", "c"], ["s", "d"]]],
    ["D", [[["d", "NaN"], ["i", "1"]], [["d", "1"], ["i", "2"]]]], ["D", [[["d", "1"], ["i", "1"]], [["d", "2.5"], ["i", "2"]]]], ["d", "1"], ["d", "1.0"],
    ["D", [[["f", "nan"], ["S", [["i", "1"]]]], [["f", "nan"], ["S", [["i", "2"]]]]]], ["D", [[["f", "nan"], ["D", [[["i", "1"], ["i", "1"]]]]], [["f", "nan"], ["D", [[["i", "2"], ["i", "2"]]]]]]],
    # bound methods as argument VALUES (callbacks, strategies): the method and the state of the instance it is bound to
    ["m", ["i", "2"], "transform"], ["m", ["i", "5"], "transform"], ["m", ["i", "2"], "other"], ["L", [["m", ["s", "a"], "transform"]]],
]


def body_for(name, sig, ignore, method=False):
    """source of a generated function: fingerprint of bound non-ignored arguments + execution log"""
    parts = []
    if method:
        parts.append("('self', _t(self.tag))")
    for kind, pname, d in sig:
        key = {"V": "*", "W": "**"}.get(kind, pname)
        if key in ignore:
            continue
        if kind == "W":
            parts.append(f"('{pname}', _t(dict({pname})))")
        else:
            parts.append(f"('{pname}', _t({pname}))")
    fp = "(" + "".join(p + ", " for p in [repr(name)] + parts) + ")"
    return f"    _log({name!r})\n    return {fp}\n"


def module_source(funcs):
    """funcs: list of dict(name, sig, ignore, kind in plain|method|async)"""
    out = ["from vlib.memhist_support import _log, _t\n\n"]
    meth = [f for f in funcs if f["kind"] == "method"]
    cmeth = [f for f in funcs if f["kind"] == "classmethod"]
    for f in funcs:
        if f["kind"] in ("method", "classmethod"):
            continue
        src = gen_sig.source(f["sig"], f["name"], is_async=f["kind"] == "async", body=body_for(f["name"], f["sig"], f["ignore"]))
        out.append(src + "\n\n")
    if meth:
        out.append("class Holder:\n    def __init__(self, tag):\n        self.tag = tag\n\n")
        for f in meth:
            out.append(gen_sig.source(f["sig"], f["name"], method=True, body=body_for(f["name"], f["sig"], f["ignore"], method=True)) + "\n")
    if cmeth:
        # classmethods inherited by two classes: one function id, one source text - the class is part of the arguments
        out.append("\n\nclass Base:\n    tag = 'Base'\n\n")
        for f in cmeth:
            out.append("    @classmethod\n" + gen_sig.source(f["sig"], f["name"], method=True, body=body_for(f["name"], f["sig"], f["ignore"], method=True)) + "\n")
        out.append("\nclass Left(Base):\n    tag = 'h0'\n\n\nclass Right(Base):\n    tag = 'h1'\n")
    return "".join(out)


def gen_binding(rng, sig, values=None, method=False):
    """choose what every parameter is bound to: ('default',) or ('value', spec); extra positionals; extra keywords"""
    values = values or VALUES
    b = {}
    pos = [s for s in sig if s[0] in "PK"]
    # defaults can only be taken by a suffix-closed set of positional params when later ones are given positionally;
    # keep it simple: decide per parameter, forms are then derived so that they are legal
    for kind, name, d in sig:
        if kind in "PKO":
            if d and rng.random() < 0.5:
                b[name] = ("default",)
            else:
                b[name] = ("value", rng.choice(values))
    extra_pos = []
    if any(s[0] == "V" for s in sig) and all(b[s[1]][0] == "value" for s in pos) and rng.random() < 0.6:
        extra_pos = [rng.choice(values) for _ in range(rng.randint(1, 2))]
    extra_kw = {}
    if any(s[0] == "W" for s in sig) and rng.random() < 0.6:
        # surplus keywords; a keyword may legally repeat the NAME of a positional-only parameter (it lands in **kw)
        # ... and any other name is a legal surplus keyword too, e.g. the names the wrapper's own methods use
        # ('*' and '**' are the names joblib's own key uses for the surplus arguments; they can be passed with ** unpacking)
        # ... and so may the names of the function's own *args / **kwargs parameters: f(1, kwargs=2)
        names = ["zz", "yy", "aa", "self", "args", "func", "*", "**"] + [s[1] for s in sig if s[0] == "P"] * 2 + [s[1] for s in sig if s[0] in "VW"]
        if method and not any(s[0] == "P" for s in sig):
            names.remove("self")      # 'self' is positional-or-keyword there: Python rejects the keyword
        for k in set(rng.sample(names, min(len(names), rng.randint(1, 2)))):
            extra_kw[k] = rng.choice(values)
    return dict(b=b, extra_pos=extra_pos, extra_kw=extra_kw)


def forms_of(rng, sig, binding, n=3):
    """call forms (args specs, kwargs specs) that Python binds to `binding`"""
    pos = [s for s in sig if s[0] in "PK"]
    kwonly = [s for s in sig if s[0] == "O"]
    b = binding["b"]
    dflt = lambda name: ["T", [["s", "dflt"], ["s", name]]]  # noqa: E731  the default value ('dflt', name) spelled out
    forms = []
    for _ in range(n * 3):
        args, kwargs = [], {}
        # how many positional parameters are passed positionally: a prefix; must cover all if extra positionals follow
        if binding["extra_pos"]:
            npos = len(pos)
        else:
            lo = len([s for s in pos if s[0] == "P" and b[s[1]][0] == "value"])
            # positional-only with value must be positional; a posonly 'default' may be omitted only if nothing after it is positional
            npos = rng.randint(0, len(pos))
        ok = True
        for i, (kind, name, d) in enumerate(pos):
            val = b[name]
            if i < npos:
                args.append(val[1] if val[0] == "value" else dflt(name))
            else:
                if val[0] == "value":
                    if kind == "P":
                        ok = False
                        break
                    kwargs[name] = val[1]
                elif kind == "K" and rng.random() < 0.3:
                    kwargs[name] = dflt(name)
        if not ok:
            continue
        args += binding["extra_pos"]
        for kind, name, d in kwonly:
            val = b[name]
            if val[0] == "value":
                kwargs[name] = val[1]
            elif rng.random() < 0.3:
                kwargs[name] = dflt(name)
        kwargs.update(binding["extra_kw"])
        form = (args, kwargs)
        if form not in forms:
            forms.append(form)
        if len(forms) >= n:
            break
    return forms


def run_sessions(d, module_name, funcs, segments, compress=False, mmap_mode=None, timeout=180, recache=None, verbose=0, location_styles=None):
    """segments: list of dict(hashseed, steps); each runs in a fresh process on the same cache directory.
    Returns list of per-segment results (None on failure) and raw run info."""
    src = module_source(funcs)
    with open(os.path.join(d, module_name + ".py"), "w") as f:
        f.write(src)
    outs = []
    for si, seg in enumerate(segments):
        cf, of = os.path.join(d, f"seg{si}.json"), os.path.join(d, f"out{si}.json")
        with open(cf, "w") as f:
            json.dump(dict(module=module_name, funcs=[dict(name=x["name"], kind=x["kind"], ignore=x["ignore"]) for x in funcs],
                           steps=seg["steps"], dir=d, compress=compress, recache=recache, verbose=verbose, overlap=True,
                           location_style=(location_styles or ["plain"])[si % len(location_styles or ["plain"])]), f)
        r = harness.run_py([SESSION, cf, of], timeout=timeout, hashseed=seg.get("hashseed", "0"), result_file=of, cwd=d)
        outs.append((r["result"], r))
    return outs


# ---------------------------------------------------------------------------
# case construction shared by C02 and C06

TWINS = {
    json.dumps(["i", "1"]): [["f", "1.0"], ["b", 1], ["s", "1"]],
    json.dumps(["f", "1.0"]): [["i", "1"], ["b", 1]],
    json.dumps(["b", 1]): [["i", "1"], ["f", "1.0"]],
    json.dumps(["i", "0"]): [["b", 0], ["f", "0.0"], ["n"]],
    json.dumps(["s", "a"]): [["y", "61"]],
    json.dumps(["y", "61"]): [["s", "a"]],
    json.dumps(["s", "1"]): [["y", "31"], ["i", "1"]],
    json.dumps(["T", [["i", "1"], ["i", "2"]]]): [["L", [["i", "1"], ["i", "2"]]], ["T", [["i", "1"], ["f", "2.0"]]]],
    json.dumps(["L", [["i", "1"], ["i", "2"]]]): [["T", [["i", "1"], ["i", "2"]]]],
    json.dumps(["S", [["i", "1"], ["i", "2"], ["i", "3"]]]): [["F", [["i", "1"], ["i", "2"], ["i", "3"]]]],
    json.dumps(["L", []]): [["T", []], ["D", []]],
    # instances of dict subclasses with unsortable keys that differ in content, or only in their class
    json.dumps(["D", [[["s", "a"], ["i", "1"]], [["i", "2"], ["i", "3"]]], "UDict"]): [["D", [[["s", "zz"], ["i", "1"]], [["i", "5"], ["i", "3"]]], "UDict"], ["D", [], "UDict"], ["D", [[["s", "a"], ["i", "1"]], [["i", "2"], ["i", "3"]]]]],
    json.dumps(["D", [[["s", "zz"], ["i", "1"]], [["i", "5"], ["i", "3"]]], "UDict"]): [["D", [[["s", "a"], ["i", "1"]], [["i", "2"], ["i", "3"]]], "UDict"], ["D", [], "UDict"]],
    json.dumps(["D", [], "UDict"]): [["D", [[["s", "a"], ["i", "1"]], [["i", "2"], ["i", "3"]]], "UDict"], ["D", []]],
    json.dumps(["D", [[["s", "a"], ["i", "1"]], [["i", "2"], ["i", "3"]]], "defaultdict"]): [["D", [[["s", "a"], ["i", "1"]], [["i", "2"], ["i", "4"]]], "defaultdict"], ["D", [[["s", "a"], ["i", "1"]], [["i", "2"], ["i", "3"]]], "OrderedDict"]],
    json.dumps(["D", [[["s", "a"], ["i", "1"]], [["i", "2"], ["i", "4"]]], "defaultdict"]): [["D", [[["s", "a"], ["i", "1"]], [["i", "2"], ["i", "3"]]], "defaultdict"]],
    json.dumps(["S", [["s", "a"], ["s", "b"], ["s", "c"], ["s", "d"]], "USet"]): [["S", [["s", "a"], ["s", "b"], ["s", "c"], ["s", "d"]]], ["F", [["s", "a"], ["s", "b"], ["s", "c"], ["s", "d"]], "UFrozenSet"]],
    json.dumps(["d", "1"]): [["d", "1.0"], ["i", "1"], ["f", "1.0"]],
    json.dumps(["m", ["i", "2"], "transform"]): [["m", ["i", "5"], "transform"], ["m", ["i", "2"], "other"], ["m", ["f", "2.0"], "transform"]],
    json.dumps(["m", ["i", "5"], "transform"]): [["m", ["i", "2"], "transform"]],
    json.dumps(["L", [["m", ["s", "a"], "transform"]]]): [["L", [["m", ["s", "b"], "transform"]]], ["L", [["m", ["y", "61"], "transform"]]]],
    json.dumps(["D", [[["f", "nan"], ["S", [["i", "1"]]]], [["f", "nan"], ["S", [["i", "2"]]]]]]): [["D", [[["f", "nan"], ["S", [["i", "1"]]]], [["f", "nan"], ["S", [["i", "3"]]]]]]],
}


def twin_binding(rng, binding):
    """a binding that differs from `binding` in exactly one value, by a near-colliding twin"""
    import copy
    b2 = copy.deepcopy(binding)
    slots = [("b", n) for n, v in b2["b"].items() if v[0] == "value" and json.dumps(v[1]) in TWINS]
    slots += [("extra_pos", i) for i, v in enumerate(b2["extra_pos"]) if json.dumps(v) in TWINS]
    slots += [("extra_kw", k) for k, v in b2["extra_kw"].items() if json.dumps(v) in TWINS]
    if not slots:
        return None
    where, key = rng.choice(slots)
    if where == "b":
        b2["b"][key] = ("value", rng.choice(TWINS[json.dumps(b2["b"][key][1])]))
    else:
        b2[where][key] = rng.choice(TWINS[json.dumps(b2[where][key])])
    return b2


EQ_CLASSES = [
    [["i", "1"], ["f", "1.0"], ["b", 1]], [["i", "0"], ["b", 0], ["f", "0.0"], ["f", "-0.0"]],
    [["T", [["i", "1"], ["i", "2"]]], ["T", [["i", "1"], ["f", "2.0"]]], ["T", [["b", 1], ["i", "2"]]]],
    [["T", [["i", "1"]]], ["T", [["f", "1.0"]]], ["T", [["b", 1]]]], [["T", [["f", "0.0"]]], ["T", [["f", "-0.0"]]], ["T", [["i", "0"]]]],
    [["T", [["s", "k"], ["T", [["i", "0"], ["i", "1"]]]]], ["T", [["s", "k"], ["T", [["b", 0], ["b", 1]]]]]],
    [["F", [["i", "1"], ["i", "2"]]], ["F", [["f", "1.0"], ["i", "2"]]]],
]


def pair_bindings(rng, binding):
    """two bindings that place, at two different slots of ONE call, (a) the same value twice and (b) that value and a value
    that is == to it but of another type ((1, 2) and (1, 2.0); 0.0 and -0.0): anything a key computation remembers per value
    by equality while it walks one call's arguments confuses the two calls"""
    import copy
    slots = [("b", n) for n, v in binding["b"].items() if v[0] == "value"]
    slots += [("extra_pos", i) for i in range(len(binding["extra_pos"]))] + [("extra_kw", k) for k in binding["extra_kw"]]
    if len(slots) < 2:
        return None
    (w1, k1), (w2, k2) = rng.sample(slots, 2)
    first, second = rng.sample(rng.choice(EQ_CLASSES), 2)
    wrap = rng.choice([None, None, "L", "D"])

    def put(b, where, key, val):
        if wrap == "L":
            val = ["L", [val, ["s", "w"]]]
        elif wrap == "D":
            val = ["D", [[["s", "w"], val]]]
        if where == "b":
            b["b"][key] = ("value", val)
        else:
            b[where][key] = val

    same, twin = copy.deepcopy(binding), copy.deepcopy(binding)
    put(same, w1, k1, first), put(same, w2, k2, first)
    put(twin, w1, k1, first), put(twin, w2, k2, second)
    return same, twin


def all_ignores(sig):
    keys = [s[1] for s in sig if s[0] in "PKO"] + (["*"] if any(s[0] == "V" for s in sig) else []) + (["**"] if any(s[0] == "W" for s in sig) else [])
    out = [[]]
    for r in (1, 2):
        import itertools
        out += [list(c) for c in itertools.combinations(keys, r)]
    return out


def build_case(rng, sigs, with_ignore, nfuncs=5, ncalls=40, nproc=1):
    """returns (funcs, segments, meta) for run_sessions"""
    funcs = []
    for i in range(nfuncs):
        sig = rng.choice(sigs)
        kind = rng.choice(["plain", "plain", "plain", "method", "async", "classmethod"])
        ign = []
        if with_ignore and sig and rng.random() < 0.6:
            ign = rng.choice(all_ignores(sig))
        funcs.append(dict(name=f"f{i}", sig=sig, ignore=ign, kind=kind))
    steps = []
    for _ in range(ncalls):
        fi = rng.randrange(nfuncs)
        f = funcs[fi]
        b = gen_binding(rng, f["sig"], method=f["kind"] in ("method", "classmethod"))
        variants = [b]
        tw = twin_binding(rng, b)
        if tw is not None:
            variants.append(tw)
        if rng.random() < 0.3:
            pair = pair_bindings(rng, b)
            if pair is not None:
                variants.extend(pair)
        if with_ignore and f["ignore"]:
            # same binding, different value for an ignored parameter: must share the entry
            import copy
            b3 = copy.deepcopy(b)
            for name in f["ignore"]:
                if name in b3["b"] and b3["b"][name][0] == "value":
                    b3["b"][name] = ("value", rng.choice(VALUES))
                elif name == "*" and b3["extra_pos"]:
                    b3["extra_pos"] = [rng.choice(VALUES) for _ in b3["extra_pos"]]
                elif name == "**" and b3["extra_kw"]:
                    b3["extra_kw"] = {k: rng.choice(VALUES) for k in b3["extra_kw"]}
            variants.append(b3)
        for v in variants:
            for args, kwargs in forms_of(rng, f["sig"], v, n=rng.choice([1, 2, 3])):
                steps.append(dict(f=fi, args=args, kwargs=kwargs, perm=rng.randrange(1 << 20), share=rng.random() < 0.5,
                                  how=rng.choice(["call", "call", "call", "shelve"]), check_before=rng.random() < 0.5,
                                  holder=rng.choice(["h0", "h0", "h1"]), via_class=f["kind"] == "method" and rng.random() < 0.35))
    rng.shuffle(steps)
    # repeat some earlier steps later (hits), possibly in another process
    reps = [dict(s, perm=rng.randrange(1 << 20), check_before=True, share=not s.get("share")) for s in rng.sample(steps, min(len(steps), max(3, len(steps) // 3)))]
    steps += reps
    if rng.random() < 0.4:
        # the cache is cleared on purpose in the middle of the history (the whole Memory, or one function): what was computed
        # before is gone, what is computed afterwards must be found again - by this process and by the next one
        for _ in range(rng.randint(1, 3)):
            steps.insert(rng.randrange(len(steps) // 3, len(steps)), dict(op="clear", what=rng.choice(["memory", "memory", "function"]), f=rng.randrange(nfuncs),
                                                                         holder=rng.choice(["h0", "h1"]), args=[], kwargs={}))
    segs = []
    n = len(steps)
    cuts = sorted(rng.sample(range(1, n), nproc - 1)) if nproc > 1 and n > nproc else []
    prev = 0
    seeds = ["0", "1", "random", "2"]
    for i, c in enumerate(cuts + [n]):
        segs.append(dict(hashseed=seeds[i % len(seeds)], steps=steps[prev:c]))
        prev = c
    return funcs, segs
