"""Case runner shared by all checks.

A check module (checks/cNN.py) provides

    ID, LEVEL, RULE, ASSUMPTIONS            strings / list
    def cases(tier, seed) -> iterable of JSON-serialisable case dicts
    def run_case(case, ctx) -> None         drives the real code, reports to ctx
    FLOORS = {tier: {"conclusive": n, "<counter>": n, ...}}   (optional)
    SHARDS = {tier: n}                      (optional, default 12)
    def classify(key, witness) -> key       (optional: narrows a mechanism key)
    def setup(tier) -> None                 (optional: deps)

and the harness does sharding over subprocesses, merging, evidence, known
findings, replay files and the exit code.

Exit codes: 0 held on everything explored, 1 violation (VIOLATION line),
2 inconclusive (the deciding monitor did not observe enough).
"""

import hashlib
import importlib
import json
import os
import random
import shutil
import signal
import subprocess
import sys
import tempfile
import time
import traceback

VERIF = os.path.dirname(os.path.dirname(os.path.abspath(__file__)))
REPO = os.environ.get("VERIF_REPO", "/repo")
PY = os.environ.get("VERIF_PY", "/venv/bin/python")
DEPS = os.path.join(VERIF, ".deps")
BUILD = os.path.join(VERIF, "build")
SHIM = os.path.join(BUILD, "fsshim.so")
MAX_SAMPLES = 6


def h(obj, n=16):
    return hashlib.sha1(
        json.dumps(obj, sort_keys=True, default=repr).encode()
    ).hexdigest()[:n]


def rng_for(seed, *parts):
    return random.Random(h([seed, *parts], 16))


def scratch_root():
    r = os.environ.get("VERIF_SCRATCH")
    if not r:
        r = os.path.join(tempfile.gettempdir(), "vjl-scratch")
    os.makedirs(r, exist_ok=True)
    return r


def mkscratch(prefix="vjl-"):
    return tempfile.mkdtemp(prefix=prefix, dir=scratch_root())


def child_env(extra=None, hashseed="0"):
    env = dict(os.environ)
    pp = [VERIF, REPO]
    if os.environ.get("VERIF_USE_DEPS") == "1" or (extra or {}).get("VERIF_USE_DEPS") == "1":
        pp.append(DEPS)
    env["PYTHONPATH"] = os.pathsep.join(pp)
    env["PYTHONHASHSEED"] = str(hashseed)
    env["PYTHONDONTWRITEBYTECODE"] = "1"
    env.setdefault("OPENBLAS_NUM_THREADS", "1")
    env.setdefault("OMP_NUM_THREADS", "1")
    env["JOBLIB_VERIF"] = "1"
    if extra:
        env.update({k: str(v) for k, v in extra.items()})
    return env


def assert_repo_joblib():
    import joblib

    f = os.path.realpath(joblib.__file__)
    if not f.startswith(os.path.realpath(REPO) + os.sep):
        raise SystemExit(f"joblib imported from {f}, not from {REPO}")
    return f


# --------------------------------------------------------------------------
# subprocess cases: own session, file outputs, group kill


def kill_group(pid):
    try:
        os.killpg(pid, signal.SIGKILL)
    except (ProcessLookupError, PermissionError):
        pass


def descendants(pid):
    """pids whose session id is `pid` (the case runs under setsid)."""
    out = []
    for d in os.listdir("/proc"):
        if not d.isdigit():
            continue
        try:
            with open(f"/proc/{d}/stat") as f:
                s = f.read()
            rest = s[s.rindex(")") + 2:].split()
            if int(rest[3]) == pid:  # session
                out.append(int(d))
        except (OSError, ValueError, IndexError):
            pass
    return out


def kill_session(pid):
    for _ in range(3):
        ps = descendants(pid)
        if not ps:
            break
        for p in ps:
            try:
                os.kill(p, signal.SIGKILL)
            except (ProcessLookupError, PermissionError):
                pass
        time.sleep(0.02)


def catches_signal(pid, sig):
    try:
        with open(f"/proc/{pid}/status") as f:
            for line in f:
                if line.startswith("SigCgt:"):
                    return bool(int(line.split()[1], 16) >> (int(sig) - 1) & 1)
    except (OSError, ValueError):
        pass
    return False


def run_proc(argv, timeout, env=None, cwd=None, outdir=None, stdin=None,
             dump_stacks_at=None):
    """Run argv in its own session with stdout/stderr to files.

    Returns dict(rc, timed_out, out, err, wall, stacks).  rc is None on
    watchdog.  The whole session is SIGKILLed afterwards.  When
    dump_stacks_at=(t1, gap) and the process is still alive at t1, SIGUSR1 is
    sent twice `gap` seconds apart (children register faulthandler on it) and
    the two stderr deltas are returned in `stacks`.
    """
    own = outdir is None
    if own:
        outdir = mkscratch("vjl-proc-")
    so = os.path.join(outdir, "stdout.txt")
    se = os.path.join(outdir, "stderr.txt")
    t0 = time.monotonic()
    stacks = None
    with open(so, "wb") as fo, open(se, "wb") as fe:
        p = subprocess.Popen(
            argv, stdin=subprocess.DEVNULL if stdin is None else stdin,
            stdout=fo, stderr=fe, env=env, cwd=cwd, start_new_session=True,
        )
        timed_out = False
        try:
            if dump_stacks_at is None:
                p.wait(timeout=timeout)
            else:
                t1, gap = dump_stacks_at
                try:
                    p.wait(timeout=t1)
                except subprocess.TimeoutExpired:
                    stacks = []
                    for _ in range(2):
                        pos = os.path.getsize(se)
                        for q in descendants(p.pid):
                            # only processes that installed a handler (faulthandler.register): the default action
                            # of SIGUSR1 would kill e.g. loky workers and change the behaviour under observation
                            if not catches_signal(q, signal.SIGUSR1):
                                continue
                            try:
                                os.kill(q, signal.SIGUSR1)
                            except OSError:
                                pass
                        time.sleep(1.0)
                        with open(se, "rb") as f:
                            f.seek(pos)
                            stacks.append(f.read().decode("utf8", "replace"))
                        if p.poll() is not None:
                            break
                        time.sleep(gap)
                    p.wait(timeout=max(0.1, timeout - (time.monotonic() - t0)))
        except subprocess.TimeoutExpired:
            timed_out = True
        finally:
            kill_group(p.pid)
            kill_session(p.pid)
            try:
                p.wait(timeout=5)
            except subprocess.TimeoutExpired:
                pass
    wall = time.monotonic() - t0

    def rd(path):
        try:
            with open(path, "rb") as f:
                return f.read().decode("utf8", "replace")
        except OSError:
            return ""

    res = dict(rc=None if timed_out else p.returncode, timed_out=timed_out,
               out=rd(so), err=rd(se), wall=wall, stacks=stacks)
    if own:
        shutil.rmtree(outdir, ignore_errors=True)
    return res


def run_py(code_or_args, timeout, env_extra=None, hashseed="0", cwd=None,
           result_file=None, **kw):
    """Run the repo's interpreter on a script path + args (list) in a case
    subprocess.  If result_file is given its JSON content is returned under
    'result' (None if absent/invalid)."""
    argv = [PY, "-X", "faulthandler"] + list(code_or_args)
    r = run_proc(argv, timeout, env=child_env(env_extra, hashseed), cwd=cwd, **kw)
    if result_file is not None:
        try:
            with open(result_file) as f:
                r["result"] = json.load(f)
        except (OSError, ValueError):
            r["result"] = None
    return r


# --------------------------------------------------------------------------
# context handed to run_case


class Ctx:
    def __init__(self, prop, tier, seed):
        self.prop, self.tier, self.seed = prop, tier, seed
        self.evaluations = 0
        self.sigs = set()
        self.samples = []
        self.violations = []
        self.inconclusives = []
        self.counters = {}
        self.maxima = {}
        self.sets = {}
        self.maps = {}
        self.case = None

    def evaluated(self, n=1):
        self.evaluations += n

    def sig(self, s):
        """record the signature of a distinct non-trivial case"""
        self.sigs.add(s if isinstance(s, str) and len(s) <= 16 else h(s, 12))

    def count(self, name, n=1):
        self.counters[name] = self.counters.get(name, 0) + n

    def maxi(self, name, v):
        if v > self.maxima.get(name, float("-inf")):
            self.maxima[name] = v

    def add(self, name, item):
        """distinct-set counter (e.g. distinct schedules, switch points)"""
        self.sets.setdefault(name, set()).add(
            item if isinstance(item, str) and len(item) <= 16 else h(item, 12))

    def kv(self, name, key, value):
        """multi-map merged across shards (for global checks in finalize)"""
        vs = self.maps.setdefault(name, {}).setdefault(key, [])
        if value not in vs:
            vs.append(value)

    def sample(self, obj, force=False):
        if force or len(self.samples) < MAX_SAMPLES:
            self.samples.append(obj)

    def violation(self, key, what, witness=None):
        self.violations.append(
            dict(key=key, what=what, witness=witness, case=self.case))

    def inconclusive(self, reason, detail=None):
        self.inconclusives.append(dict(reason=reason, detail=detail, case=self.case))

    def dump(self):
        return dict(
            evaluations=self.evaluations, sigs=sorted(self.sigs),
            samples=self.samples, violations=self.violations,
            inconclusives=self.inconclusives, counters=self.counters,
            maxima=self.maxima, sets={k: sorted(v) for k, v in self.sets.items()},
            maps=self.maps,
        )


def merge(parts):
    out = dict(evaluations=0, sigs=set(), samples=[], violations=[],
               inconclusives=[], counters={}, maxima={}, sets={}, maps={})
    for p in parts:
        out["evaluations"] += p["evaluations"]
        out["sigs"].update(p["sigs"])
        out["violations"].extend(p["violations"])
        out["inconclusives"].extend(p["inconclusives"])
        for k, v in p["counters"].items():
            out["counters"][k] = out["counters"].get(k, 0) + v
        for k, v in p["maxima"].items():
            out["maxima"][k] = max(out["maxima"].get(k, v), v)
        for k, v in p["sets"].items():
            out["sets"].setdefault(k, set()).update(v)
        for name, mp in p.get("maps", {}).items():
            tgt = out["maps"].setdefault(name, {})
            for key, vals in mp.items():
                cur = tgt.setdefault(key, [])
                for val in vals:
                    if val not in cur:
                        cur.append(val)
    # samples: round-robin over shards so they are varied
    i = 0
    while len(out["samples"]) < MAX_SAMPLES:
        took = False
        for p in parts:
            if i < len(p["samples"]) and len(out["samples"]) < MAX_SAMPLES:
                out["samples"].append(p["samples"][i])
                took = True
        if not took:
            break
        i += 1
    return out


# --------------------------------------------------------------------------
# known findings


def load_findings():
    path = os.path.join(VERIF, "known_findings.json")
    try:
        with open(path) as f:
            data = json.load(f)
    except OSError:
        return []
    return [e for e in data.get("findings", []) if e.get("status") == "known"]


# --------------------------------------------------------------------------
# main


def tier_and_seed(argv):
    tier = os.environ.get("VERIF_TIER") or "quick"
    for a in argv:
        if a in ("quick", "thorough"):
            tier = a
    seed = int(os.environ.get("VERIF_SEED", "0") or 0)
    return tier, seed


def run_shard(mod, tier, seed, idx, n, outfile):
    ctx = Ctx(mod.ID, tier, seed)
    budget = getattr(mod, "SHARD_TIME", {}).get(tier)
    t0 = time.monotonic()
    try:
        if hasattr(mod, "shard_setup"):
            mod.shard_setup(tier)
        for i, case in enumerate(mod.cases(tier, seed)):
            if i % n != idx:
                continue
            if budget and time.monotonic() - t0 > budget:
                ctx.count("cases_skipped_time_budget")
                continue
            if sum("nontermination" in v["key"] for v in ctx.violations) >= 3:
                # the verdict is decided; do not burn a budget per remaining case
                ctx.count("cases_skipped_after_nontermination_witnesses")
                continue
            ctx.case = case
            try:
                mod.run_case(case, ctx)
            except Exception:
                # a harness bug must not masquerade as held or violated
                ctx.inconclusive("harness-exception", traceback.format_exc()[-2000:])
            ctx.case = None
    except Exception:
        ctx.inconclusive("shard-exception", traceback.format_exc()[-2000:])
    with open(outfile + ".tmp", "w") as f:
        json.dump(ctx.dump(), f, default=repr)
    os.replace(outfile + ".tmp", outfile)


def main(modname, argv):
    os.environ.setdefault("PYTHONHASHSEED", "0")
    if VERIF not in sys.path:
        sys.path.insert(0, VERIF)
    if os.environ.get("VERIF_USE_DEPS") == "1" and DEPS not in sys.path:
        sys.path.append(DEPS)
    mod = importlib.import_module(modname)
    if getattr(mod, "NEEDS_DEPS", None) and os.environ.get("VERIF_USE_DEPS") != "1":
        ensure_deps(*mod.NEEDS_DEPS)
        os.environ["VERIF_USE_DEPS"] = "1"
    tier, seed = tier_and_seed(argv)
    if "--shard" in argv:
        i = argv.index("--shard")
        idx, n, outfile = int(argv[i + 1]), int(argv[i + 2]), argv[i + 3]
        run_shard(mod, tier, seed, idx, n, outfile)
        return 0
    if "--replay" in argv:
        return replay(mod, argv[argv.index("--replay") + 1], tier, seed)

    t0 = time.time()
    if hasattr(mod, "setup"):
        mod.setup(tier)
    nsh = getattr(mod, "SHARDS", {}).get(tier, 12)
    nsh = int(os.environ.get("VERIF_JOBS", nsh))
    work = mkscratch(f"vjl-{mod.ID}-")
    procs = []
    watchdog = getattr(mod, "WATCHDOG", {}).get(tier, 3600)
    for idx in range(nsh):
        out = os.path.join(work, f"shard{idx}.json")
        log = open(os.path.join(work, f"shard{idx}.log"), "wb")
        p = subprocess.Popen(
            [PY, "-X", "faulthandler", "-m", "vlib.harness", modname, tier,
             "--shard", str(idx), str(nsh), out],
            stdin=subprocess.DEVNULL, stdout=log, stderr=log,
            env=child_env({"VERIF_SEED": seed, "VERIF_TIER": tier}), cwd=VERIF,
            start_new_session=True)
        procs.append((p, out, log))
    parts, lost = [], []
    deadline = time.monotonic() + watchdog
    for idx, (p, out, log) in enumerate(procs):
        try:
            p.wait(timeout=max(1, deadline - time.monotonic()))
        except subprocess.TimeoutExpired:
            pass
        kill_group(p.pid)
        kill_session(p.pid)
        log.close()
        try:
            with open(out) as f:
                parts.append(json.load(f))
        except (OSError, ValueError):
            try:
                with open(os.path.join(work, f"shard{idx}.log"), "rb") as f:
                    tail = f.read()[-1500:].decode("utf8", "replace")
            except OSError:
                tail = ""
            lost.append(dict(reason="shard-lost", detail=f"shard {idx} rc={p.returncode}: {tail}", case=None))
    m = merge(parts) if parts else merge([Ctx(mod.ID, tier, seed).dump()])
    m["inconclusives"].extend(lost)
    shutil.rmtree(work, ignore_errors=True)
    if hasattr(mod, "finalize"):
        fctx = Ctx(mod.ID, tier, seed)
        try:
            mod.finalize(m, fctx)
        except Exception:
            fctx.inconclusive("harness-exception", traceback.format_exc()[-2000:])
        f = fctx.dump()
        m["violations"].extend(f["violations"])
        m["inconclusives"].extend(f["inconclusives"])
        for k, v in f["counters"].items():
            m["counters"][k] = m["counters"].get(k, 0) + v
    return report(mod, tier, seed, m, time.time() - t0)


def report(mod, tier, seed, m, wall):
    known = [e for e in load_findings() if e["property"] == mod.ID]
    known_keys = {e["key"]: e for e in known}
    hit, unlisted = {}, []
    for v in m["violations"]:
        key = v["key"]
        if key in known_keys:
            hit.setdefault(key, []).append(v)
        else:
            unlisted.append(v)
    for key, vs in sorted(hit.items()):
        print(f"KNOWN-FINDING: property={mod.ID} {key} {known_keys[key]['what']} (seen {len(vs)}x this run)")
    rc = 0
    replays = []
    if unlisted:
        rdir = os.path.join(os.environ.get("VERIF_REPLAY_DIR") or os.path.join(VERIF, "replays"), mod.ID)
        os.makedirs(rdir, exist_ok=True)
        seen_keys = {}
        for v in unlisted:
            seen_keys.setdefault(v["key"], []).append(v)
        for key, vs in sorted(seen_keys.items()):
            v = vs[0]
            path = os.path.join(rdir, f"{h([key, v['case']], 10)}.json")
            with open(path, "w") as f:
                json.dump(dict(property=mod.ID, tier=tier, seed=seed, key=key,
                               what=v["what"], case=v["case"], witness=v["witness"],
                               same_key_count=len(vs)), f, indent=1, default=repr)
            replays.append(path)
            print(f"VIOLATION property={mod.ID} replay={path}")
            print(f"  key={key} ({len(vs)}x) {v['what']}"[:600])
        rc = 1
    floors = getattr(mod, "FLOORS", {}).get(tier, {})
    reasons = []
    conclusive = m["evaluations"] - len(m["inconclusives"])
    for name, need in floors.items():
        if name == "conclusive":
            got = conclusive
        elif name == "distinct":
            got = len(m["sigs"])
        elif name in m["sets"]:
            got = len(m["sets"][name])
        else:
            got = m["counters"].get(name, m["maxima"].get(name, 0))
        if got < need:
            reasons.append(f"{name}={got}<{need}")
    if any(i["reason"] in ("shard-lost", "shard-exception", "harness-exception") for i in m["inconclusives"]):
        reasons.append("harness-failure")
    if len(m["sigs"]) < 2:
        reasons.append("distinct_nontrivial<2")
    incl = {}
    for i in m["inconclusives"]:
        incl[i["reason"]] = incl.get(i["reason"], 0) + 1
    coverage = dict(
        evaluations=max(m["evaluations"], 1) if m["evaluations"] else 0,
        distinct_nontrivial=len(m["sigs"]),
        rule=mod.RULE,
        samples=m["samples"] or [],
        counters=m["counters"], maxima=m["maxima"],
        distinct_sets={k: len(v) for k, v in m["sets"].items()},
        inconclusive=incl,
        inconclusive_examples=[{k: (str(v)[:400]) for k, v in i.items()} for i in m["inconclusives"][:3]],
        known_findings_hit={k: len(v) for k, v in hit.items()},
        unlisted_violation_keys=sorted({v["key"] for v in unlisted}),
        joblib_file=os.path.join(REPO, "joblib", "__init__.py"),
        verdict="violated" if rc == 1 else ("inconclusive" if reasons else "held"),
        inconclusive_reasons=reasons,
    )
    if getattr(mod, "EXHAUSTIVE", {}).get(tier):
        coverage["exhaustive"] = True
    coverage.update(getattr(mod, "EXTRA_COVERAGE", {}))
    ev = dict(property_id=mod.ID, tier=tier, seed=seed, level=mod.LEVEL,
              coverage=coverage, assumptions=list(mod.ASSUMPTIONS),
              wall_s=round(wall, 2), violations=len(unlisted))
    evdir = os.environ.get("VERIF_EVIDENCE_DIR") or os.path.join(VERIF, "evidence")
    os.makedirs(evdir, exist_ok=True)
    path = os.path.join(evdir, f"{mod.ID}.json")
    with open(path + ".tmp", "w") as f:
        json.dump(ev, f, indent=1, default=repr)
    os.replace(path + ".tmp", path)
    print(f"{mod.ID} {tier} seed={seed}: evaluations={m['evaluations']} distinct={len(m['sigs'])} "
          f"violations={len(unlisted)} known={sum(len(v) for v in hit.values())} "
          f"inconclusive={len(m['inconclusives'])} wall={wall:.1f}s")
    for k in sorted(m["counters"]):
        print(f"  counter {k}={m['counters'][k]}")
    for k in sorted(m["maxima"]):
        print(f"  max {k}={m['maxima'][k]}")
    for k in sorted(m["sets"]):
        print(f"  distinct {k}={len(m['sets'][k])}")
    if incl:
        print(f"  inconclusive cases: {incl}")
        for i in m["inconclusives"][:2]:
            print("   e.g.", str(i)[:800])
    if rc == 0 and reasons:
        print(f"INCONCLUSIVE property={mod.ID} reason={';'.join(reasons)}")
        rc = 2
    return rc


def replay(mod, path, tier, seed):
    with open(path) as f:
        w = json.load(f)
    if hasattr(mod, "setup"):
        mod.setup(w.get("tier", tier))
    ctx = Ctx(mod.ID, w.get("tier", tier), w.get("seed", seed))
    if hasattr(mod, "shard_setup"):
        mod.shard_setup(ctx.tier)
    ctx.case = w["case"]
    mod.run_case(w["case"], ctx)
    known = {e["key"] for e in load_findings() if e["property"] == mod.ID}
    for v in ctx.violations:
        tag = "KNOWN-FINDING:" if v["key"] in known else "VIOLATION"
        print(f"{tag} property={mod.ID} replay={path} key={v['key']} {v['what']}"[:1000])
    if not ctx.violations:
        print(f"replay of {path}: no violation reproduced "
              f"({len(ctx.inconclusives)} inconclusive)")
    return 1 if any(v["key"] not in known for v in ctx.violations) else 0


def ensure_deps(*pkgs):
    """install third-party deps from the offline wheelhouse into .deps"""
    missing = []
    for p in pkgs:
        mark = os.path.join(DEPS, p)
        if not os.path.isdir(mark):
            missing.append(p)
    if missing:
        subprocess.run(
            [PY, "-m", "pip", "install", "-q", "--no-index", "--find-links",
             "/opt/veriftools/wheels", "--target", DEPS] + missing,
            check=True, stdout=subprocess.DEVNULL)
    if DEPS not in sys.path:
        sys.path.append(DEPS)


def ensure_shim():
    src = os.path.join(VERIF, "native", "fsshim.c")
    if (not os.path.exists(SHIM)
            or os.path.getmtime(SHIM) < os.path.getmtime(src)):
        os.makedirs(BUILD, exist_ok=True)
        tmp = SHIM + f".{os.getpid()}.tmp"
        subprocess.run(["gcc", "-O2", "-shared", "-fPIC", "-w", "-o", tmp, src,
                        "-ldl", "-lpthread"], check=True)
        os.replace(tmp, SHIM)
    return SHIM


if __name__ == "__main__":
    sys.exit(main(sys.argv[1], sys.argv[2:]))


def run_repo_tests_with_contracts(test_files, timeout=900):
    """run some of the repository's own test modules with vlib/contracts_plugin.py loaded; returns the plugin's state or None"""
    ensure_deps("icontract")
    d = mkscratch("vjl-contracts-")
    try:
        out = os.path.join(d, "contract.json")
        env = child_env({"VERIF_CONTRACT_OUT": out, "VERIF_USE_DEPS": "1"})
        for k in ("OPENBLAS_NUM_THREADS", "OMP_NUM_THREADS", "MKL_NUM_THREADS"):
            env.pop(k, None)   # the repository's conftest asserts that these are unset
        r = run_proc([PY, "-m", "pytest", "-q", "-p", "no:cacheprovider", "-p", "vlib.contracts_plugin"] +
                     [os.path.join(REPO, t) for t in test_files], timeout, env=env, cwd=d)
        try:
            with open(out) as f:
                return json.load(f), r
        except (OSError, ValueError):
            return None, r
    finally:
        shutil.rmtree(d, ignore_errors=True)
