"""tasks of C15 (importable from workers): they log who ran them and when"""
import os
import threading
import time


def _append(logfile, line):
    fd = os.open(logfile, os.O_WRONLY | os.O_APPEND | os.O_CREAT, 0o644)
    try:
        os.write(fd, line.encode())
    finally:
        os.close(fd)


def timed(i, logfile, dur, level):
    t0 = time.monotonic()
    time.sleep(dur)
    t1 = time.monotonic()
    _append(logfile, f"{i} {os.getpid()} {threading.get_native_id()} {t0:.6f} {t1:.6f}\n")
    return i


def nested(level, depth, inner_n, logfile, path, mid_style="default"):
    """log (level, pid, tid, path, parent pid, parent tid) and recurse with a default Parallel"""
    return _child(level, depth, inner_n, logfile, path, (0, 0), mid_style)


def _child(level, depth, inner_n, logfile, path, parent, mid_style="default"):
    import contextlib
    from joblib import Parallel, delayed, parallel_config
    pid, tid = os.getpid(), threading.get_native_id()
    _append(logfile, f"{level} {pid} {tid} {'.'.join(map(str, path))} {parent[0]} {parent[1]}\n")
    time.sleep(0.01)
    if level + 1 < depth:
        me = (pid, tid)
        # the call made by a level-0 task may carry hints / constraints or sit in a context block, all of which still
        # give a thread-based backend; every deeper call is a plain default call
        ctx, kw = contextlib.nullcontext(), {}
        if level == 0 and mid_style != "default":
            for part in mid_style.split("+"):
                if part.startswith("ctx-"):
                    ctx = parallel_config(backend=part[4:])
                elif part == "require-sharedmem":
                    kw["require"] = "sharedmem"
                elif part == "prefer-threads":
                    kw["prefer"] = "threads"
        with ctx:
            Parallel(n_jobs=inner_n, batch_size=1, **kw)(
                delayed(_child)(level + 1, depth, inner_n, logfile, path + [j], me) for j in range(inner_n + 1))
    return level
