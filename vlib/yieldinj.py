"""Seeded pre-emption injection with sys.monitoring LINE events restricted to the
code objects of chosen modules (joblib/parallel.py, _parallel_backends.py).

CPython may switch threads at any bytecode boundary, so every injected switch is
one the program can have; nothing is injected inside C calls.
"""

import random
import sys
import threading
import time

from vlib.budget import code_objects

TOOL = 3


class Injector:
    def __init__(self, modules, seed, p_yield=0.03, p_sleep=0.008, instr_cos=(), p_instr=0.0):
        self.cos = [co for m in modules for co in code_objects(m)]
        # code objects in which pre-emption is also injected between two bytecode INSTRUCTIONS of one line
        # (a read-then-write of shared state on a single line is a window too)
        self.instr_cos = list(instr_cos)
        self.p_instr = p_instr
        self.instr_yields = 0
        self.instr_p = {}      # per-code-object override of p_instr
        self.seed = seed
        self.p_yield, self.p_sleep = p_yield, p_sleep
        self.tl = threading.local()
        self.events = 0
        self.yields = 0
        self.points = set()
        self.nthreads = 0
        self.lock = threading.Lock()
        self.active = False
        self.hooks = {}   # function name -> callable(code, line): scheduling points owned by a check

    def _on_line(self, code, line):
        h = self.hooks.get(code.co_name)
        if h is not None:
            h(code, line)
        r = getattr(self.tl, "r", None)
        if r is None:
            with self.lock:
                self.nthreads += 1
                k = self.nthreads
            r = self.tl.r = random.Random(self.seed * 1000003 + k)
        self.events += 1
        x = r.random()
        if x < self.p_yield:
            self.yields += 1
            self.points.add((code.co_name, line))
            time.sleep(0)
        elif x < self.p_yield + self.p_sleep:
            self.yields += 1
            self.points.add((code.co_name, line))
            time.sleep(r.choice([0.00005, 0.0002, 0.0005]))

    def _on_instruction(self, code, offset):
        if not self.p_instr and not self.instr_p:
            return
        r = getattr(self.tl, "r", None)
        if r is None:
            with self.lock:
                self.nthreads += 1
                k = self.nthreads
            r = self.tl.r = random.Random(self.seed * 1000003 + k)
        p = self.instr_p.get(code, self.p_instr) if self.instr_p else self.p_instr
        if r.random() < p:
            self.instr_yields += 1
            time.sleep(r.choice([0, 0, 0.0001, 0.0005, 0.002]))

    def reseed(self, seed, p_yield=None, p_sleep=None):
        self.seed = seed
        if p_yield is not None:
            self.p_yield = p_yield
        if p_sleep is not None:
            self.p_sleep = p_sleep
        self.tl = threading.local()
        self.nthreads = 0

    def __enter__(self):
        mon = sys.monitoring
        mon.use_tool_id(TOOL, "vyield")
        mon.register_callback(TOOL, mon.events.LINE, self._on_line)
        for co in self.cos:
            mon.set_local_events(TOOL, co, mon.events.LINE)
        if self.instr_cos:
            mon.register_callback(TOOL, mon.events.INSTRUCTION, self._on_instruction)
            for co in self.instr_cos:
                mon.set_local_events(TOOL, co, mon.events.LINE | mon.events.INSTRUCTION)
        self.active = True
        return self

    def __exit__(self, *a):
        mon = sys.monitoring
        for co in self.cos:
            mon.set_local_events(TOOL, co, 0)
        mon.register_callback(TOOL, mon.events.LINE, None)
        mon.free_tool_id(TOOL)
        self.active = False
