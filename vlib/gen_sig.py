"""Enumerate Python signatures over the five parameter kinds and their call shapes.

A signature is a tuple of (kind, name, has_default) with kind in
'P' positional-only, 'K' positional-or-keyword, 'V' *args, 'O' keyword-only,
'W' **kwargs, in the order Python's grammar accepts.
"""

import inspect
import itertools

NAMES = "abcdefgh"


def signatures(max_params):
    """all grammatical signatures with <= max_params parameters"""
    for total in range(0, max_params + 1):
        for p in range(total + 1):
            for q in range(total - p + 1):
                for v in (0, 1):
                    for w in (0, 1):
                        k = total - p - q - v - w
                        if k < 0:
                            continue
                        npos = p + q
                        for ndef in range(npos + 1):
                            for kdefs in itertools.product((False, True), repeat=k):
                                sig, names = [], iter(NAMES)
                                for i in range(npos):
                                    kind = "P" if i < p else "K"
                                    sig.append((kind, next(names), i >= npos - ndef))
                                if v:
                                    sig.append(("V", "args", False))
                                for d in kdefs:
                                    sig.append(("O", next(names), d))
                                if w:
                                    sig.append(("W", "kw", False))
                                yield tuple(sig)


def default_of(name):
    return ("dflt", name)


DEFAULT_STYLES = {
    0: lambda name, i: f"('dflt', '{name}')",
    # falsy, None and mutable defaults: a default must be honoured whatever its truth value
    1: lambda name, i: ["None", "0", "''", "[]", "False", "()", "0.0", "{}"][i % 8],
}


def source(sig, fname="f", method=False, is_async=False, body=None, dstyle=0, self_slash=False, implicit_self=False):
    """Python source text of a def with this signature (self_slash: 'def f(self, /, ...)' for a method without
    positional-only parameters of its own, so that 'self' may come back as a surplus keyword)."""
    parts = []
    kinds = [s[0] for s in sig]
    if method and not implicit_self:
        parts.append("self")
        if self_slash and "P" not in kinds:
            parts.append("/")
    for i, (kind, name, d) in enumerate(sig):
        if kind == "V":
            parts.append("*" + name)
            continue
        if kind == "W":
            parts.append("**" + name)
            continue
        if kind == "O" and "V" not in kinds and (i == 0 or sig[i - 1][0] != "O"):
            parts.append("*")
        parts.append(name + (("=" + DEFAULT_STYLES[dstyle](name, i)) if d else ""))
        if kind == "P" and (i + 1 == len(sig) or sig[i + 1][0] != "P"):
            parts.append("/")
    if method and sig and sig[0][0] == "P":
        # self must be positional-only too
        pass
    params = ", ".join(parts)
    if method and "/" in parts:
        # 'self' precedes '/', fine: it becomes positional-only as well
        pass
    if body is None:
        body = "    return None\n"
    indent = "    " if method else ""
    head = f"{indent}{'async ' if is_async else ''}def {fname}({params}):\n"
    return head + "".join(indent + line + "\n" for line in body.rstrip("\n").split("\n"))


def sig_str(sig):
    return source(sig).split("\n")[0][4:-1]


LOCALS_BODY = "    return dict(locals())\n"


def call_shapes(sig, extra_kw=("zz", "yy"), method=False):
    """All call shapes (npos, kwnames): npos positionals, then keywords.

    npos ranges over 0..(#positional params)+2; kwnames over every subset of
    the parameters that can be named (pos-or-kw and kw-only not already
    covered... and also those already covered, which Python rejects) plus 0-2
    extra keywords, plus - when **kw exists - keywords that repeat a
    positional-only name.
    """
    pos = [s for s in sig if s[0] in "PK"]
    nameable = [s[1] for s in sig if s[0] in "KO"]
    posonly = [s[1] for s in sig if s[0] == "P"]
    has_w = any(s[0] == "W" for s in sig)
    extras = [(), extra_kw[:1], extra_kw[:2], ("_a",)]   # '_a' sorts before every parameter name, 'zz' after
    if has_w and posonly:
        # keywords that repeat a positional-only name land under '**' (whether or not that parameter is passed)
        extras.append((posonly[0],))
        if len(posonly) > 1:
            extras.append((posonly[-1],))
            extras.append((posonly[0], posonly[-1]))
    if has_w:
        extras.append(("*",))         # legal through ** unpacking; also the names of the surplus entries in joblib's own mapping
        extras.append(("**", "zz"))
    if has_w:
        # a surplus keyword named like the function's own *args / **kwargs parameter: f(1, kwargs=2) lands under '**'
        wname = [s[1] for s in sig if s[0] == "W"][0]
        extras.append((wname,))
        vnames = [s[1] for s in sig if s[0] == "V"]
        if vnames:
            extras.append((vnames[0],))
            extras.append((vnames[0], wname))
    if has_w and method:
        extras.append(("self",))      # accepted by Python when 'self' is positional-only
    for npos in range(0, len(pos) + 3):
        for r in range(len(nameable) + 1):
            for kws in itertools.combinations(nameable, r):
                for ex in extras:
                    yield npos, tuple(kws) + tuple(ex)


def values_for(npos, kwnames):
    """distinct, typed values per slot so that swaps are visible"""
    args = tuple(("p", i) for i in range(npos))
    kwargs = {k: ("k", k) for k in kwnames}
    return args, kwargs


def python_binding(func, args, kwargs):
    """What Python binds, in filter_args' output vocabulary, or None if Python
    rejects the call.  The reference is the interpreter itself: the function (body LOCALS_BODY) is really called
    and reports its locals - inspect.Signature.bind() of Python 3.12.1 wrongly rejects a surplus keyword that
    repeats the name of an omitted positional-only parameter, so it cannot define the domain."""
    try:
        loc = func(*args, **kwargs)
    except TypeError:
        return None
    out = {}
    for name, p in inspect.signature(func).parameters.items():   # for a bound method: without self
        if p.kind is p.VAR_POSITIONAL:
            out["*"] = list(loc[name])
        elif p.kind is p.VAR_KEYWORD:
            out["**"] = dict(loc[name])
        else:
            out[name] = loc[name]
    return out


def predicates(sig):
    """structural predicates used by classifiers (mechanism keys)"""
    kinds = [s[0] for s in sig]
    pk = [s for s in sig if s[0] in "PK"]
    ko = [s for s in sig if s[0] in "KO"]  # joblib's arg_names
    d = dict(
        posonly="P" in kinds,
        varargs_kwonly=("V" in kinds and "O" in kinds),
    )
    # joblib looks defaults up by negative index over K+O: correct only if the
    # defaulted parameters are a suffix of K+O and no P has a default
    flags = [s[2] for s in ko]
    suffix = all(flags[i] <= flags[i + 1] for i in range(len(flags) - 1))
    d["default_not_suffix"] = (not suffix) or any(s[2] for s in sig if s[0] == "P")
    return d
