"""Turn-based coordinator for processes running under native/fsshim.c in sched
mode: every watched file-system call of every participant is announced on a
unix socket and blocks until the coordinator grants the turn, so the
interleaving at file-system-call granularity is chosen here.
"""

import os
import selectors
import socket
import subprocess
import time

from vlib import harness


class Participant:
    def __init__(self, idx, proc, outpath):
        self.idx, self.proc, self.outpath = idx, proc, outpath
        self.ready = False
        self.done = False


def run_schedule(rng, argvs, root, workdir, strategy="pct", max_steps=1500, tau=0.6, preemptions=3,
                 est_len=120, env_extra=None, ready_marker="/__READY__", watchdog=120.0, policy=None):
    """Run the participants (argv lists for the repo's interpreter) under the shim.

    Phase 1: participants run one after the other until each has announced the
    ready marker (a watched stat of <root>/__READY__).  Phase 2: seeded
    schedule.  Returns dict(trace, rcs, steps, preempt_points, timed_out).
    """
    ctl = os.path.join(workdir, "ctl.sock")
    srv = socket.socket(socket.AF_UNIX, socket.SOCK_STREAM)
    srv.bind(ctl)
    srv.listen(32)
    srv.setblocking(False)
    sel = selectors.DefaultSelector()
    sel.register(srv, selectors.EVENT_READ, "srv")
    procs = {}
    logs = []
    for i, argv in enumerate(argvs):
        env = harness.child_env(dict(LD_PRELOAD=harness.SHIM, VSHIM_ROOT=root, VSHIM_CTL=ctl, VSHIM_ID=str(i), **(env_extra or {})))
        lf = open(os.path.join(workdir, f"p{i}.log"), "wb")
        logs.append(lf)
        procs[i] = subprocess.Popen([harness.PY, "-X", "faulthandler"] + argv, env=env, stdin=subprocess.DEVNULL,
                                    stdout=lf, stderr=lf, start_new_session=True)
    parked = {}     # conn -> (id, tid, op, mut, path)
    bufs = {}
    ready = set()
    trace = []
    tids = {}
    cur = None
    steps = 0
    preempt_points = set()
    t_start = time.monotonic()
    last_progress = time.monotonic()
    change_points = sorted(rng.sample(range(1, max(est_len, preemptions + 2)), preemptions)) if strategy == "pct" else []
    phase2_step = 0
    timed_out = False

    def alive():
        return {i for i, p in procs.items() if p.poll() is None}

    try:
        while True:
            live = alive()
            if not live and not parked:
                break
            if time.monotonic() - t_start > watchdog:
                timed_out = True
                break
            for key, _ in sel.select(0.01):
                if key.data == "srv":
                    try:
                        c, _a = srv.accept()
                    except BlockingIOError:
                        continue
                    c.setblocking(False)
                    sel.register(c, selectors.EVENT_READ, "c")
                    bufs[c] = b""
                else:
                    c = key.fileobj
                    try:
                        d = c.recv(8192)
                    except (BlockingIOError, ConnectionResetError):
                        continue
                    if not d:
                        sel.unregister(c)
                        c.close()
                        parked.pop(c, None)
                        bufs.pop(c, None)
                        continue
                    bufs[c] += d
                    while b"\n" in bufs[c]:
                        line, bufs[c] = bufs[c].split(b"\n", 1)
                        parts = line.decode("utf8", "replace").split(" ", 8)
                        # E id pid tid seq op mut arg relpath
                        parked[c] = (int(parts[1]), parts[3], parts[5], parts[6], parts[8] if len(parts) > 8 else "")
                        last_progress = time.monotonic()
            if not parked:
                if not live:
                    break
                continue
            # phase 1: sequential set-up until everyone has announced the ready marker
            all_ready = ready >= set(procs)
            if not all_ready:
                # the participant with the lowest id that is not ready runs alone
                runner = min(set(procs) - ready)
                cands = [(c, v) for c, v in parked.items() if v[0] == runner]
                if not cands:
                    if runner not in live:
                        ready.add(runner)   # died during set-up: reported through its rc
                    continue
                c, v = cands[0]
                if v[4] == ready_marker:
                    ready.add(runner)
                    if ready >= set(procs):
                        continue    # keep everybody parked at the marker; phase 2 releases them
                    continue
                del parked[c]
                _grant(c)
                continue
            # phase 2: wait until every live participant is parked or has been silent for tau
            parked_ids = {v[0] for v in parked.values()}
            if (live - parked_ids) and time.monotonic() - last_progress < tau:
                continue
            # the scheduling entity is the thread: (participant id, thread id)
            cands = sorted(parked.items(), key=lambda kv: (kv[1][0], kv[1][1]))
            pick = None
            stay = [kv for kv in cands if (kv[1][0], kv[1][1]) == cur]
            if policy is not None:
                # a check-owned adversary: policy(candidates as (participant, thread, op, path)) -> index or None
                k = policy([(kv[1][0], kv[1][1], kv[1][2], kv[1][4]) for kv in cands])
                if k is not None:
                    pick = cands[k]
            if pick is not None:
                pass
            elif strategy == "pct":
                if stay and not (change_points and phase2_step >= change_points[0]):
                    pick = stay[0]
                else:
                    if change_points and phase2_step >= change_points[0]:
                        change_points.pop(0)
                    others = [kv for kv in cands if (kv[1][0], kv[1][1]) != cur] or cands
                    pick = rng.choice(others)
            else:
                if stay and rng.random() > 0.35:
                    pick = stay[0]
                else:
                    pick = rng.choice(cands)
            c, v = pick
            if cur is not None and (v[0], v[1]) != cur and any((kv[1][0], kv[1][1]) == cur for kv in cands):
                preempt_points.add((v[2], _pclass(v[4])))
            cur = (v[0], v[1])
            tids.setdefault(v[0], [])
            if v[1] not in tids[v[0]]:
                tids[v[0]].append(v[1])
            trace.append((v[0] if len(tids[v[0]]) == 1 and tids[v[0]][0] == v[1] else f"{v[0]}.{tids[v[0]].index(v[1])}", v[2], _short(v[4])))
            del parked[c]
            _grant(c)
            last_progress = time.monotonic()
            steps += 1
            phase2_step += 1
            if steps > max_steps:
                # let everybody run freely to the end
                strategy = "free"
                for c2 in list(parked):
                    _grant(c2)
                parked.clear()
                break
        # drain: grant everything until all exit
        t_end = time.monotonic() + 30
        while alive() and time.monotonic() < t_end:
            for key, _ in sel.select(0.02):
                if key.data == "srv":
                    try:
                        c, _a = srv.accept()
                        c.setblocking(False)
                        sel.register(c, selectors.EVENT_READ, "c")
                        bufs[c] = b""
                    except BlockingIOError:
                        pass
                else:
                    c = key.fileobj
                    try:
                        d = c.recv(8192)
                    except (BlockingIOError, ConnectionResetError):
                        continue
                    if not d:
                        sel.unregister(c)
                        c.close()
                        continue
                    for _ in range(d.count(b"\n")):
                        _grant(c)
    finally:
        rcs = {}
        for i, p in procs.items():
            if p.poll() is None:
                timed_out = True
                harness.kill_group(p.pid)
                harness.kill_session(p.pid)
            try:
                p.wait(5)
            except subprocess.TimeoutExpired:
                pass
            rcs[i] = p.returncode
        for lf in logs:
            lf.close()
        try:
            sel.close()
            srv.close()
            os.unlink(ctl)
        except OSError:
            pass
    return dict(trace=trace, rcs=rcs, steps=steps, preempt_points=sorted(preempt_points), timed_out=timed_out)


def _grant(c):
    try:
        c.send(b"g")
    except OSError:
        pass


def _short(path):
    base = path.rsplit("/", 1)[-1]
    return base[:8] + (".." + base[-12:] if len(base) > 22 else base[8:])


def _pclass(path):
    base = path.rsplit("/", 1)[-1]
    for k in ("output.pkl", "metadata.json", "func_code.py"):
        if base.startswith(k):
            return k + (".tmp" if base != k else "")
    if len(base) == 32:
        return "entry-dir"
    return "dir"
