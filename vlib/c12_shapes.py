"""Texts of the versioned function of C12: versions of one shape differ only in the tag 'v<k>', and the shapes put
that tag at different places of the definition (joblib decides 'same code?' on the text it retrieves for the function,
so where an edit sits must not matter).  OUT(t, x) is a helper living outside the function's text."""

SHAPES = {
    "plain": "def f(x):\n    return OUT('v{k}', x)\n",
    "trailing-tuple": "def f(x):\n    return OUT(x=x, t=(\n        'pad',\n        'v{k}',\n    ))\n",
    "trailing-string": "def f(x):\n    return OUT(x=x, t=\"\"\"\n    v{k}\n    \"\"\")\n",
    "trailing-dict": "def f(x):\n    return OUT(\n        x=x,\n        t={{\n            'pad': 0,\n            'tag': 'v{k}',\n        }},\n    )\n",
    "backslash": "def f(x):\n    return OUT(x=x, t=\\\n        'v{k}')\n",
    "multiline-signature": "def f(\n    x,\n    t='v{k}',\n):\n    return OUT(t, x)\n",
    "inner-def": "def f(x):\n    def g():\n        return 'v{k}'\n\n    return OUT(g(), x)\n",
    "after-blank-and-comment": "def f(x):\n    y = x\n\n    # a comment\n\n    return OUT('v{k}', y)\n",
    "long-body": "def f(x):\n" + "".join(f"    a{i} = {i}\n" for i in range(60)) + "    return OUT('v{k}', x)\n",
    "implicit-concat": "def f(x):\n    return OUT(x=x, t=(\n        'v'\n        '{k}'\n    ))\n",
    # only a NAME the function refers to changes (same bytecode, same constants)
    "global-name": "def f(x):\n    return OUT(TAG_V{k}, x)\n",
    "attribute-name": "def f(x):\n    return OUT(TAGS.v{k}, x)\n",
    "first-line-only": "def f(x, t='v{k}'):\n    z = (\n        x\n    )\n    return OUT(t, z)\n",
}
NAMES = sorted(SHAPES)


TAG_GLOBALS_SRC = "TAG_V1, TAG_V2, TAG_V3 = 'v1', 'v2', 'v3'\n\n\nclass TAGS:\n    v1, v2, v3 = 'v1', 'v2', 'v3'\n\n\n"


class TAGS:
    v1, v2, v3 = "v1", "v2", "v3"


TAG_GLOBALS = dict(TAG_V1="v1", TAG_V2="v2", TAG_V3="v3", TAGS=TAGS)


def norm(t):
    if isinstance(t, tuple):
        t = t[-1]
    if isinstance(t, dict):
        t = t["tag"]
    return t.strip()


def text(shape, k):
    return SHAPES[shape].format(k=k)


# source of an OUT helper for the fresh-process sessions (appends to a log file)
OUT_SRC = ("import json, os\n\n\n" + TAG_GLOBALS_SRC + "def OUT(t, x):\n    if isinstance(t, tuple):\n        t = t[-1]\n    if isinstance(t, dict):\n        t = t['tag']\n    t = t.strip()\n"
           "    fd = os.open({log!r}, os.O_WRONLY | os.O_APPEND)\n    os.write(fd, (json.dumps([t, x]) + '\\n').encode())\n    os.close(fd)\n    return (t, x)\n\n\n")
