"""task and fault carriers of C10 (importable in loky workers)"""
import os
import signal
import time


def die(how):
    if how == "SIGKILL":
        os.kill(os.getpid(), signal.SIGKILL)
    elif how == "SIGTERM":
        os.kill(os.getpid(), signal.SIGTERM)
    elif how == "SIGSEGV":
        import faulthandler
        faulthandler._sigsegv()
    elif how == "exit":
        os._exit(3)
    elif how.startswith("exit:"):
        os._exit(int(how[5:]))       # a chosen exit status (0 = looks like a clean exit, 128+n = shell-style signal codes, ...)
    time.sleep(5)
    os._exit(4)


def _die_on_load(how, parent):
    if os.getpid() != parent:
        die(how)
    return "arg"


class DieOnUnpickle:
    """argument whose reconstruction kills the (worker) process"""

    def __init__(self, how, parent):
        self.how, self.parent = how, parent

    def __reduce__(self):
        return (_die_on_load, (self.how, self.parent))


class DieOnPickle:
    """result whose pickling kills the (worker) process"""

    def __init__(self, how, parent):
        self.how, self.parent = how, parent

    def __reduce__(self):
        if os.getpid() != self.parent:
            die(self.how)
        return (str, ("never",))


def _kill_siblings(parent):
    """SIGKILL the other worker processes of the same parent (they are idle: this call has a single batch)"""
    me = os.getpid()
    for d in os.listdir("/proc"):
        if not d.isdigit() or int(d) == me:
            continue
        try:
            with open(f"/proc/{d}/stat") as f:
                st = f.read()
            ppid = int(st[st.rindex(")") + 2:].split()[1])
            with open(f"/proc/{d}/cmdline", "rb") as f:
                cmd = f.read()
        except (OSError, ValueError):
            continue
        if ppid == parent and b"popen_loky" in cmd and b"resource_tracker" not in cmd:
            try:
                os.kill(int(d), signal.SIGKILL)
            except OSError:
                pass


_ARMED = []


def _arm():
    """leave a thread behind in this worker that ends the process with a chosen exit status once the check drops a file
    named after its pid (the only way an IDLE worker can end with a status of its own choosing, e.g. 0)"""
    d = os.environ.get("C10_MINE_DIR")
    if not d or _ARMED:
        return
    _ARMED.append(1)
    import threading
    me = os.path.join(d, f"die_{os.getpid()}")

    def watch():
        while True:
            try:
                with open(me) as f:
                    code = int(f.read().strip() or 0)
                os._exit(code)
            except (OSError, ValueError):
                time.sleep(0.01)
    threading.Thread(target=watch, daemon=True).start()


def task(i, tag, fault, dur, pad=None):
    pid = os.getpid()
    _arm()
    if fault is None:
        time.sleep(dur)
        return (tag, i, pid)
    instant, how = fault["instant"], fault["how"]
    if instant == "task_start":
        die(how)
    if instant == "mid_task_slow":
        time.sleep(fault.get("after", 0.6) / 2)
        if fault.get("kill_siblings"):
            _kill_siblings(fault["parent"])
        time.sleep(fault.get("after", 0.6) / 2)
        die(how)
    if instant == "mid_task":
        time.sleep(dur / 2)
        die(how)
    time.sleep(dur)
    if instant == "task_end":
        die(how)
    if instant == "result_pickle":
        return (tag, i, pid, DieOnPickle(how, fault["parent"]))
    if instant == "result_send_small":
        # armed interposer: the first write() of >= 4096 bytes to a pipe is cut and the process SIGKILLs itself
        os.environ["VSHIM_PIPEKILL"] = "4096"
        return (tag, i, pid, b"r" * 20000)
    if instant == "result_send_large":
        os.environ["VSHIM_PIPEKILL"] = "1000000"
        return (tag, i, pid, b"r" * (8 << 20))
    return (tag, i, pid)


def with_arg(i, tag, arg, dur, pad=None):
    time.sleep(dur)
    return (tag, i, os.getpid())
