"""task functions of C09's real-pool scenario, importable from worker processes"""
import os
import threading
import time


class Boom(Exception):
    pass


class UnpicklableError(Exception):
    """an exception whose arguments cannot be pickled"""

    def __init__(self, *a):
        super().__init__(*a)
        self.lock = threading.Lock()

    def __reduce__(self):
        return (UnpicklableError, (threading.Lock(),))


def held_task(i, gate, how, arg=None, poll=0.01, max_wait=120.0):
    if how == "raise":
        raise Boom("held", i)
    if how == "unpicklable-result":
        return threading.Lock()
    if how == "unpicklable-exception":
        raise UnpicklableError("held", i)
    # ("unpicklable-argument" fails before the task can run on process pools; on threads the task simply runs)
    if how == "unpicklable-argument":
        raise Boom("held-arg", i)
    t0 = time.time()
    while not os.path.exists(gate) and time.time() - t0 < max_wait:
        time.sleep(poll)
    return ("held", i)
