"""Small reference oracles the observed behaviour is compared against."""


class RefStream:
    """read-only binary stream over `data`; seeks past the end clamp to the end"""

    def __init__(self, data):
        self.data = bytes(data)
        self.pos = 0

    def read(self, n=-1):
        if n is None or n < 0:
            n = len(self.data) - self.pos
        out = self.data[self.pos:self.pos + n]
        self.pos += len(out)
        return out

    def readinto(self, buf):
        out = self.read(len(buf))
        buf[:len(out)] = out
        return len(out)

    def readline(self, limit=-1):
        end = self.data.find(b"\n", self.pos)
        end = len(self.data) if end < 0 else end + 1
        if limit is not None and limit >= 0:
            end = min(end, self.pos + limit)
        out = self.data[self.pos:end]
        self.pos = end
        return out

    def tell(self):
        return self.pos

    def target(self, off, whence):
        base = {0: 0, 1: self.pos, 2: len(self.data)}[whence]
        return base + off

    def seek(self, off, whence=0):
        t = self.target(off, whence)
        assert t >= 0
        self.pos = min(t, len(self.data))
        return self.pos


import io


class ShortReader(io.RawIOBase):
    """a legal raw stream that returns at most k bytes per read()"""

    def __init__(self, data, k):
        self.b = io.BytesIO(data)
        self.k = k

    def readable(self):
        return True

    def seekable(self):
        return True

    def read(self, n=-1):
        if n is None or n < 0:
            return self.b.read()
        return self.b.read(min(n, self.k))

    def readinto(self, buf):
        d = self.b.read(min(len(buf), self.k))
        buf[:len(d)] = d
        return len(d)

    def seek(self, off, whence=0):
        return self.b.seek(off, whence)

    def tell(self):
        return self.b.tell()
