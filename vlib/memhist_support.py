"""imported by the generated function modules of C02 / C06"""
LOG = []


def _log(name):
    LOG.append(name)


def _t(v):
    """typed, order-insensitive fingerprint of a value"""
    t = type(v)
    if t is bool:
        return ("bool", v)
    if t is int:
        return ("int", v)
    if t is float:
        return ("float", repr(v))
    if t is complex:
        return ("complex", repr(v))
    if t is str:
        return ("str", v)
    if t is bytes:
        return ("bytes", v.hex())
    if t is bytearray:
        return ("bytearray", bytes(v).hex())
    if v is None:
        return ("none",)
    if t is tuple:
        return ("tuple",) + tuple(_t(x) for x in v)
    if t is list:
        return ("list",) + tuple(_t(x) for x in v)
    if t is dict:
        return ("dict",) + tuple(sorted(((_t(k), _t(x)) for k, x in v.items()), key=repr))
    if t in (set, frozenset):
        return (t.__name__,) + tuple(sorted((_t(x) for x in v), key=repr))
    if t.__name__ == "method":
        return ("method", v.__func__.__qualname__, _t(getattr(v.__self__, "__dict__", None)))
    if isinstance(v, dict):          # instance of a dict subclass (OrderedDict: the order is part of the value)
        items = [(_t(k), _t(x)) for k, x in v.items()]
        return ("dict:" + t.__name__,) + tuple(items if t.__name__ == "OrderedDict" else sorted(items, key=repr))
    if isinstance(v, (set, frozenset)):
        return ("set:" + t.__name__,) + tuple(sorted((_t(x) for x in v), key=repr))
    if t.__name__ == "Decimal":
        return ("decimal", str(v))
    return ("obj", t.__name__, _t(getattr(v, "__dict__", None)))


# ---------------------------------------------------------------------------
# functions for OVERLAPPING calls of one cached wrapper (recursion through the wrapper, two threads, two asyncio tasks)

REC = None        # the cached wrapper of rec, set by the session
OVERLAP_LOG = []


def rec(n, tag):
    """calls its own cached wrapper: the cache misses of rec(n), rec(n-1), ... are open at the same time"""
    OVERLAP_LOG.append(("rec", n))
    if n == 0:
        return (tag, 0)
    return (tag, n, REC(n - 1, tag))


def rec_plain(n, tag):
    return (tag, 0) if n == 0 else (tag, n, rec_plain(n - 1, tag))


def slow(x, tag, started=None, go=None):
    """signals that its computation has started, then waits for permission to finish"""
    import time
    OVERLAP_LOG.append(("slow", x))
    if started is not None:
        open(started, "w").close()
    if go is not None:
        import os
        t0 = time.time()
        while not os.path.exists(go) and time.time() - t0 < 10:
            time.sleep(0.002)
    return ("slow", tag, x)


async def aslow(x, tag):
    import asyncio
    OVERLAP_LOG.append(("aslow", x))
    await asyncio.sleep(0.02 if x % 2 else 0.04)
    return ("aslow", tag, x)
