"""imported by the generated function modules of C02 / C06"""
LOG = []


def _log(name):
    LOG.append(name)


def _t(v):
    """typed, order-insensitive fingerprint of a value"""
    t = type(v)
    if t is bool:
        return ("bool", v)
    if t is int:
        return ("int", v)
    if t is float:
        return ("float", repr(v))
    if t is complex:
        return ("complex", repr(v))
    if t is str:
        return ("str", v)
    if t is bytes:
        return ("bytes", v.hex())
    if t is bytearray:
        return ("bytearray", bytes(v).hex())
    if v is None:
        return ("none",)
    if t is tuple:
        return ("tuple",) + tuple(_t(x) for x in v)
    if t is list:
        return ("list",) + tuple(_t(x) for x in v)
    if t is dict:
        return ("dict",) + tuple(sorted(((_t(k), _t(x)) for k, x in v.items()), key=repr))
    if t in (set, frozenset):
        return (t.__name__,) + tuple(sorted((_t(x) for x in v), key=repr))
    if isinstance(v, dict):          # instance of a dict subclass (OrderedDict: the order is part of the value)
        items = [(_t(k), _t(x)) for k, x in v.items()]
        return ("dict:" + t.__name__,) + tuple(items if t.__name__ == "OrderedDict" else sorted(items, key=repr))
    if isinstance(v, (set, frozenset)):
        return ("set:" + t.__name__,) + tuple(sorted((_t(x) for x in v), key=repr))
    if t.__name__ == "Decimal":
        return ("decimal", str(v))
    return ("obj", t.__name__, _t(getattr(v, "__dict__", None)))
