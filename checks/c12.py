"""C12 - a cached function never returns a value computed by different source code.

Monitor: versions of a same-named function differ only in the tag they return,
so a value served from another version's cache is visible in the value itself;
executions are logged by the functions, so a needless recomputation of
unchanged code is visible too.  Histories define(k) / call(j, a) are executed
for real: notebook-style redefinition (exec'd cells with their own source),
module files rewritten and reloaded, lambdas, nested functions, __code__ swaps,
and fresh processes sharing the cache directory (module and __main__ scripts).
"""

import importlib
import itertools
import json
import linecache
import os
import shutil
import sys
import warnings

from vlib import c12_shapes, harness

ID = "C12"
LEVEL = "exploration"
RULE = ("a case is a history of steps define(version k) / call(live version j, argument a) / forced execution with .call() over <= 3 versions and <= 2 "
        "arguments: exhaustive up to length 4 (quick) / 5 (thorough) and sampled up to length 12, for same-session styles "
        "'cells' (each definition exec'd with its own source, as in a notebook), 'samefile' (several same-named definitions at different lines of one module file, all alive), 'lambda', 'nested', 'codeswap', 'reload' "
        "(module file rewritten + importlib.reload), and across fresh processes ('module' and '__main__' scripts, including "
        "sessions that change nothing, a process that stays alive with its version while fresh processes run the same or another version, and sessions in which one function object is cached by two Memory objects on two directories with calls alternating between them); distinct_nontrivial counts distinct histories with at least two versions and one "
        "call of a version other than the latest"
        " A third of the in-session calls go through a cloudpickled copy of the wrapper; a quarter of the in-session histories run with every func_code.py re-stamped to one instant (coarse timestamps); module sessions rewrite the source file between import and first call in 60 % of the version changes.")
ASSUMPTIONS = [
    "a version's value is ('v<k>', a): tag equality decides which code computed it",
    "style 'reload': joblib reads a function's source from its file at the first call of its wrapper, so each definition "
    "is called once before the file is rewritten again (a later first call would read the new text - inherent to reading source from disk)",
    "nested functions / lambdas that differ only in closure values have the same source and are outside the statement",
]
SHARDS = {"quick": 12, "thorough": 14}
FLOORS = {"quick": {"histories": 800, "calls_checked": 2500, "old_version_calls": 700, "idreuse_achieved": 5, "forced_calls": 150, "fresh_process_sessions": 60, "calls_of_a_live_process": 12, "live_histories": 3, "unchanged_sessions_checked": 8, "histories_with_two_cache_directories": 100, "hash_colliding_code_swaps": 30, "histories_with_one_directory_under_two_spellings": 40, "calls_through_a_pickled_copy_of_the_wrapper": 150},
          "thorough": {"idreuse_achieved": 50, "histories": 30000, "calls_checked": 100000, "old_version_calls": 30000, "fresh_process_sessions": 2000, "calls_of_a_live_process": 150, "live_histories": 40, "unchanged_sessions_checked": 250, "histories_with_two_cache_directories": 3000, "hash_colliding_code_swaps": 500, "histories_with_one_directory_under_two_spellings": 1000}}

EXEC = []
_uid = [0]
_shape_i = [0]
SESSION = os.path.join(harness.VERIF, "checks", "c12_session.py")
LIVE = os.path.join(harness.VERIF, "checks", "c12_live.py")


def steps_alphabet(nv, na, force=False):
    return [("def", k) for k in range(1, nv + 1)] + [("call", k, a) for k in range(1, nv + 1) for a in range(na)] + \
        ([("force", k, a) for k in range(1, nv + 1) for a in range(na)] if force else [])


def valid_history(h):
    live = set()
    for s in h:
        if s[0] == "def":
            live.add(s[1])
        elif s[1] not in live:
            return False
    return h[0][0] == "def"


def cases(tier, seed):
    L = 4 if tier == "quick" else 5
    alpha = steps_alphabet(2 if tier == "quick" else 3, 2)
    hs = []
    for n in range(2, L + 1):
        for h in itertools.product(alpha, repeat=n):
            if valid_history(h) and sum(1 for s in h if s[0] in ("call", "force")):
                hs.append(h)
    # forced executions (MemorizedFunc.call) interleaved with ordinary calls of two live versions
    ops = [("call", 1, 0), ("call", 2, 0), ("force", 1, 0), ("force", 2, 0)]
    for n in (1, 2, 3):
        for tail in itertools.product(ops, repeat=n):
            if any(t[0] == "force" for t in tail):
                hs.append((("def", 1), ("def", 2)) + tail)
    styles = ["cells", "samefile", "lambda", "nested", "reload", "codeswap", "samefile", "nosource"]
    chunk = []
    for i, h in enumerate(hs):
        chunk.append(dict(style=styles[i % len(styles)], h=[list(s) for s in h]))
        if len(chunk) == 40:
            yield dict(kind="insession", hs=chunk, all_styles=tier != "quick")
            chunk = []
    if chunk:
        yield dict(kind="insession", hs=chunk, all_styles=tier != "quick")
    n = 60 if tier == "quick" else 1500
    for i in range(n):
        yield dict(kind="random", i=i)
    m = 40 if tier == "quick" else 600
    for i in range(m):
        yield dict(kind="processes", i=i)
    for i in range(12 if tier == "quick" else 150):
        yield dict(kind="live", i=i)


# ---------------------------------------------------------------------------
# same-session definers


def OUT(t, x):
    t = c12_shapes.norm(t)
    EXEC.append((t, x))
    return (t, x)


def src_of(style, k, shape=None):
    if shape and style in ("cells", "nosource"):
        return "\n" * (k % 2) + c12_shapes.text(shape, k)
    if style == "lambda":
        return f"f = lambda x: EXEC.append(('v{k}', x)) or ('v{k}', x)\n"
    if style == "nested":
        return f"def make():\n    def f(x):\n        EXEC.append(('v{k}', x))\n        return ('v{k}', x)\n    return f\n\n\nf = make()\n"
    pad = "\n" * (k % 2)   # some versions start on another line
    return f"{pad}def f(x):\n    EXEC.append(('v{k}', x))\n    return ('v{k}', x)\n"


def define_cell(style, k, shape=None):
    _uid[0] += 1
    fn = f"<c12-cell-{os.getpid()}-{_uid[0]}>"
    src = src_of("cells" if style == "nosource" else style, k, shape)
    if style != "nosource":
        linecache.cache[fn] = (len(src), None, src.splitlines(True), fn)
    # ("nosource": built with exec, no source text anywhere - joblib has to tell versions apart from the code object alone)
    g = dict({"__name__": "c12cells", "EXEC": EXEC, "OUT": OUT}, **c12_shapes.TAG_GLOBALS)
    exec(compile(src, fn, "exec"), g)
    return g["f"]


def samefile_module(d):
    """one module file holding three definitions of `f` at different lines, each kept alive under another name -
    the file is never rewritten, so joblib's 'possible name collision' branch (stored code still present at the
    stored line) is exercised"""
    name = f"c12same{_uid[0]}"
    _uid[0] += 1
    parts = ["EXEC = []\n"]
    for k in (1, 2, 3):
        parts.append(f"\n\ndef f(x):\n    EXEC.append(('v{k}', x))\n    return ('v{k}', x)\n\n\nf_{k} = f\n" + "# pad\n" * k)
    with open(os.path.join(d, name + ".py"), "w") as f:
        f.write("".join(parts))
    importlib.invalidate_caches()
    mod = importlib.import_module(name)
    mod.EXEC = EXEC
    for k in (1, 2, 3):
        getattr(mod, f"f_{k}").__globals__["EXEC"] = EXEC
    return mod


def run_history(style, h, ctx, d, shape=None, two_dirs=False):
    from joblib import Memory
    if two_dirs == "alias" and style == "reload":
        # under one directory the second wrapper of a definition is validated through the in-memory table and does not read
        # the source file at its warm-up call: the 'called once before the file is rewritten' premise of this style would not hold
        two_dirs = True
    if shape:
        ctx.count("shaped_histories")
        ctx.count("shape:" + shape)
    cache = os.path.join(d, f"cache{_uid[0]}")
    _uid[0] += 1
    with warnings.catch_warnings():
        warnings.simplefilter("ignore")
        mem = Memory(cache, verbose=0)
        # "alias": the SAME directory under another spelling of its path
        mem_b = (Memory(os.path.join(os.path.dirname(cache), ".", os.path.basename(cache)) if two_dirs == "alias" else cache + "_b", verbose=0)
                 if two_dirs else None)
    live = {}
    live_b = {}      # the same function objects cached by a second Memory on another directory
    if two_dirs:
        ctx.count("histories_with_two_cache_directories")
    if two_dirs == "alias":
        ctx.count("histories_with_one_directory_under_two_spellings")
    modfile = os.path.join(d, "c12reload.py")
    ctx.count("histories")
    sys.modules.pop("c12reload", None)
    versions_defined = []
    nontrivial = False
    desc = dict(style=style, history=h, shape=shape)
    swap_holder = {}
    desc["coarse_timestamps"] = int(harness.h([style, h, "coarse"], 4), 16) % 4 == 0
    style_key = style + (":" + shape if shape else "")
    # one history in four lives on a file system with COARSE timestamps (FAT, ext3, many network mounts: 1-2 s): every
    # func_code.py written during the history carries one and the same modification time (and the versions' texts have one length)
    coarse = int(harness.h([style, h, "coarse"], 4), 16) % 4 == 0
    if coarse:
        ctx.count("histories_on_a_file_system_with_coarse_timestamps")

    def coarsen():
        for c in (cache, cache + "_b"):
            for dp, _, fns in os.walk(c):
                if "func_code.py" in fns:
                    try:
                        os.utime(os.path.join(dp, "func_code.py"), (1_700_000_000, 1_700_000_000))
                    except OSError:
                        pass

    for idx, s in enumerate(h):
        if coarse:
            coarsen()
        with warnings.catch_warnings():
            warnings.simplefilter("ignore")
            if s[0] == "def":
                k = s[1]
                if style == "reload":
                    with open(modfile, "w") as f:
                        if shape:
                            f.write("EXEC = []\nOUT = None\n" + c12_shapes.TAG_GLOBALS_SRC + c12_shapes.text(shape, k) + "# pad\n" * k)
                        else:
                            f.write(f"EXEC = []\n\n\ndef f(x):\n    EXEC.append(('v{k}', x))\n    return ('v{k}', x)\n" + "# pad\n" * k)
                    importlib.invalidate_caches()
                    if "c12reload" in sys.modules:
                        mod = importlib.reload(sys.modules["c12reload"])
                    else:
                        mod = importlib.import_module("c12reload")
                    mod.EXEC = EXEC
                    mod.OUT = OUT
                    fn = mod.f
                    c = mem.cache(fn)
                    live[k] = c
                    # joblib reads the source from the file at the wrapper's first call: do it before the next rewrite
                    got = c(-1)
                    if got != (f"v{k}", -1):
                        ctx.violation(f"wrong-version:{style_key}", f"warm-up call of freshly defined version {k} returned {got}; {desc}", desc)
                        return
                elif style == "samefile":
                    if "mod" not in swap_holder:
                        swap_holder["mod"] = samefile_module(d)
                    live[k] = mem.cache(getattr(swap_holder["mod"], f"f_{k}"))
                elif style == "codeswap":
                    fn = define_cell("cells", k)
                    if "f" not in swap_holder:
                        swap_holder["f"] = fn
                        swap_holder["c"] = mem.cache(fn)
                    else:
                        swap_holder["f"].__code__ = fn.__code__     # the code object of the one cached function is swapped
                    live = {k: swap_holder["c"]}                     # only the newest code is live
                else:
                    live[k] = mem.cache(define_cell(style, k, shape))
                if two_dirs and style in ("cells", "lambda", "nested", "reload", "samefile", "nosource") and k in live:
                    live_b[k] = mem_b.cache(live[k].func)
                    if style == "reload":
                        got = live_b[k](-1)
                        if got != (f"v{k}", -1):
                            ctx.violation(f"wrong-version:{style_key}:second-directory", f"warm-up call of version {k} through the second Memory returned {got}; {desc}", desc)
                            return
                versions_defined.append(k)
            else:
                kind, j, a = s
                if j not in live:
                    continue
                before = len(EXEC)
                through = live_b if (j in live_b and idx % 2) else live
                if kind == "call" and style in ("cells", "lambda", "nested", "codeswap", "nosource") and int(harness.h([style, h, idx], 4), 16) % 3 == 0:
                    # the call goes through a copy of the wrapper that went through pickle (what a wrapper sent to a worker or
                    # handed to another process is): these functions are not importable, cloudpickle ships them by value - the
                    # copy runs the code the function had WHEN IT WAS PICKLED and must be keyed by that code
                    try:
                        from joblib.externals import cloudpickle
                        through = {j: cloudpickle.loads(cloudpickle.dumps(through[j]))}
                        ctx.count("calls_through_a_pickled_copy_of_the_wrapper")
                    except Exception as e:  # noqa
                        ctx.violation(f"wrapper-not-picklable:{style_key}", f"pickling the wrapper of version {j} raised {type(e).__name__}: {e}; {desc}", desc)
                        return
                try:
                    if kind == "force":
                        # MemorizedFunc.call: force the execution and store the result
                        got = through[j].call(a)[0]
                        ctx.count("forced_calls")
                    else:
                        got = through[j](a)
                except Exception as e:  # noqa
                    ctx.violation(f"call-raised:{style_key}", f"call of version {j} raised {type(e).__name__}: {e}; {desc}", desc)
                    return
                ctx.count("calls_checked")
                if versions_defined and j != versions_defined[-1]:
                    ctx.count("old_version_calls")
                    nontrivial = True
                if got != (f"v{j}", a):
                    latest = versions_defined[-1]
                    key = "older-definition-served-newer-value" if j != latest else "newer-definition-served-older-value"
                    ctx.violation(f"{key}:{style_key}", f"step {idx}: version {j} called with {a} returned {got}; history {h}", desc)
                    return
                ran = EXEC[before:]
                if kind == "force" and ran != [(f"v{j}", a)]:
                    ctx.violation(f"forced-call-did-not-execute:{style_key}", f"step {idx}: call() of version {j} executed {ran}; {desc}", desc)
                    return
                if ran and ran != [(f"v{j}", a)]:
                    ctx.violation(f"wrong-code-executed:{style_key}", f"step {idx}: calling version {j} executed {ran}; {desc}", desc)
                    return
    if nontrivial and len(set(versions_defined)) >= 2:
        ctx.sig((style, h))


def run_idreuse(ctx, d, rng):
    """__code__ swapped to a code object that lives at the address of an earlier, collected one"""
    from joblib import Memory
    with warnings.catch_warnings():
        warnings.simplefilter("ignore")
        _uid[0] += 1
        mem = Memory(os.path.join(d, f"cacheid{_uid[0]}"), verbose=0)
        f = define_cell("cells", 1)
        c = mem.cache(f)
        a = rng.randint(0, 2)
        first = c(a)
        addr = id(f.__code__)
        f.__code__ = define_cell("cells", 2).__code__      # the first code object is collected here
        second = c(a)
        keep = []
        hit = False
        for _ in range(300):
            g = define_cell("cells", 3)
            if id(g.__code__) == addr:
                f.__code__ = g.__code__
                hit = True
                break
            keep.append(g)
        ctx.count("idreuse_attempts")
        if not hit:
            return
        ctx.count("idreuse_achieved")
        third = c(a)
    ctx.count("calls_checked", 3)
    desc = dict(style="codeswap-idreuse", values=[first, second, third])
    if (first, second, third) != (("v1", a), ("v2", a), ("v3", a)):
        ctx.violation("newer-definition-served-older-value:codeswap-idreuse",
                      f"__code__ swapped v1 -> v2 -> v3 where the v3 code object reuses the address of the collected v1 code object: calls returned {first}, {second}, {third}", desc)


HASH_TWINS = [("-1", "-2"), ("-1", "-2"), ("0", "2305843009213693951"), ("7", "2305843009213693958"), ("(3, -1)", "(3, -2)"), ("[x, -1][1]", "[x, -2][1]"),
              ("0.0", "-0.0"), ("1", "True"), ("1", "1.0")]


def run_hashtwin(ctx, d, rng):
    """__code__ swapped to a code object that differs only in a constant with the same hash() (-1 / -2, 0.0 / -0.0, 1 / True ...):
    whatever joblib remembers about the old code object must not make it take the new one for unchanged code"""
    from joblib import Memory
    with warnings.catch_warnings():
        warnings.simplefilter("ignore")
        _uid[0] += 1
        mem = Memory(os.path.join(d, f"cachetw{_uid[0]}"), verbose=0)
        ca, cb = rng.choice(HASH_TWINS)
        if rng.random() < 0.5:
            ca, cb = cb, ca

        def cell(const):
            _uid[0] += 1
            fn = f"<c12-twin-{os.getpid()}-{_uid[0]}>"
            src = f"def f(x):\n    return ({const!s}, x)\n"
            linecache.cache[fn] = (len(src), None, src.splitlines(True), fn)
            g = {"__name__": "c12cells"}
            exec(compile(src, fn, "exec"), g)
            return g["f"]

        f = cell(ca)
        c = mem.cache(f)
        a = rng.randint(0, 2)
        first = c(a)
        f.__code__ = cell(cb).__code__
        second = c(a)
    ctx.count("calls_checked", 2)
    ctx.count("hash_colliding_code_swaps")
    x = a
    want = (eval(ca), a), (eval(cb), a)       # expressions generated by this check
    same = lambda u, v: u == v and [type(x) for x in u] == [type(x) for x in v] and repr(u) == repr(v)  # noqa: E731
    if not (same(first, want[0]) and same(second, want[1])):
        desc = dict(style="codeswap-hash-twin", constants=[ca, cb], values=[repr(first), repr(second)])
        ctx.violation("newer-definition-served-older-value:codeswap-hash-twin",
                      f"__code__ swapped from 'return ({ca}, x)' to 'return ({cb}, x)' (constants with equal hash()): calls returned {first!r}, {second!r}", desc)


def run_case(case, ctx):
    if case["kind"] == "processes":
        return run_processes(case, ctx)
    if case["kind"] == "live":
        return run_live(case, ctx)
    d = harness.mkscratch("vjl-c12-")
    sys.path.insert(0, d)
    try:
        if case["kind"] == "insession":
            for _ in range(3):
                run_idreuse(ctx, d, harness.rng_for(ctx.seed, ID, "idreuse", len(case["hs"]), _))
                del EXEC[:]
                run_hashtwin(ctx, d, harness.rng_for(ctx.seed, ID, "hashtwin", harness.h(case["hs"][0], 8), _))
                run_hashtwin(ctx, d, harness.rng_for(ctx.seed, ID, "hashtwin2", harness.h(case["hs"][0], 8), _))
            for item in case["hs"]:
                styles = ["cells", "samefile", "lambda", "nested", "reload", "codeswap", "nosource"] if case["all_styles"] else sorted({item["style"], "cells"})
                for st in styles:
                    ctx.evaluated()
                    run_history(st, [tuple(s) for s in item["h"]], ctx, d)
                    del EXEC[:]
                    if st in ("cells", "samefile", "reload") and len(item["h"]) >= 3 and _shape_i[0] % 3 == 0:
                        ctx.evaluated()
                        run_history(st, [tuple(s) for s in item["h"]], ctx, d, two_dirs=True if _shape_i[0] % 2 else "alias")
                        del EXEC[:]
                    if st in ("cells", "reload", "nosource") and len(item["h"]) >= 3:
                        # the same history with the versions' difference placed elsewhere in the definition
                        _shape_i[0] += 1
                        ctx.evaluated()
                        run_history(st, [tuple(s) for s in item["h"]], ctx, d, shape=c12_shapes.NAMES[_shape_i[0] % len(c12_shapes.NAMES)])
                        del EXEC[:]
        else:
            rng = harness.rng_for(ctx.seed, ID, "rand", case["i"])
            alpha = steps_alphabet(3, 3, force=True)
            for _ in range(12):
                n = rng.randint(5, 12)
                h = [("def", rng.randint(1, 3))]
                while len(h) < n:
                    s = rng.choice(alpha)
                    if valid_history(h + [s]):
                        h.append(s)
                ctx.evaluated()
                st = rng.choice(["cells", "samefile", "samefile", "lambda", "nested", "reload", "codeswap", "nosource"])
                run_history(st, h, ctx, d, shape=rng.choice(c12_shapes.NAMES) if st in ("cells", "reload", "nosource") and rng.random() < 0.7 else None,
                            two_dirs=rng.choice([False, False, False, True, "alias"]))
                del EXEC[:]
            if case["i"] % 20 == 0:
                ctx.sample(dict(style="random", history=h))
    finally:
        sys.modules.pop("c12reload", None)
        if d in sys.path:
            sys.path.remove(d)
        shutil.rmtree(d, ignore_errors=True)


# ---------------------------------------------------------------------------
# fresh processes sharing one cache directory


def run_processes(case, ctx):
    rng = harness.rng_for(ctx.seed, ID, "proc", case["i"])
    style = rng.choice(["module", "main", "module-two-directories"])
    two = style == "module-two-directories"
    d = harness.mkscratch("vjl-c12p-")
    try:
        nsess = rng.randint(3, 6)
        shape = rng.choice([None] + c12_shapes.NAMES)
        if shape:
            ctx.count("shaped_histories")
            ctx.count("shape:" + shape)
        versions = [rng.randint(1, 3)]
        for _ in range(nsess - 1):
            versions.append(versions[-1] if rng.random() < 0.45 else rng.randint(1, 3))
        known = set()       # (version, arg) computed while that version was continuously the stored one
        log = os.path.join(d, "exec.log")
        ctx.evaluated()
        hist = []
        edited = False
        edited_sessions = []
        for si, k in enumerate(versions):
            args = [rng.randint(0, 2) for _ in range(rng.randint(1, 4))]
            which = [rng.randint(0, 1) for _ in args] if two else None
            if two:
                ctx.count("sessions_with_two_cache_directories")
            if si > 0 and versions[si - 1] != k and not two:
                known = set()
            cfg = dict(style="module" if two else style, version=k, args=args, dir=d, log=log, shape=shape, which=which)
            edited_before = edited
            edited = False
            if style == "module" and si + 1 < len(versions) and versions[si + 1] != k and rng.random() < 0.6:
                # the file is rewritten with the NEXT session's version after this session imported it, before its first call
                cfg["edit_after_import"] = versions[si + 1]
                edited = True
                ctx.count("sessions_whose_source_file_is_edited_before_their_first_call")
            cf, of = os.path.join(d, f"cfg{si}.json"), os.path.join(d, f"out{si}.json")
            with open(cf, "w") as f:
                json.dump(cfg, f)
            open(log, "w").close()
            r = harness.run_py([SESSION, cf, of], timeout=120, result_file=of, cwd=d)
            ctx.count("fresh_process_sessions")
            if not r["result"]:
                ctx.inconclusive("session-failed", dict(cfg=cfg, err=r["err"][-400:]))
                return
            hist.append((k, args) if not two else (k, args, which))
            if edited:
                edited_sessions.append(si)
            desc = dict(style=style, sessions=hist, shape=shape, sessions_edited_before_their_first_call=list(edited_sessions))
            executed = [tuple(json.loads(l)) for l in open(log).read().splitlines()]
            for a, got in zip(args, r["result"]["values"]):
                ctx.count("calls_checked")
                if got != [f"v{k}", a]:
                    if got in [[f"v{versions[e]}", a] for e in edited_sessions if e < si] or (edited and got == [f"v{versions[si + 1]}", a]):
                        # (second form: THIS session has the old definition loaded, reads the edited file, finds the text the
                        # next version's earlier sessions recorded, and is served their values)
                        # the previous session recorded THIS version's source text (read from the edited file at its first call) next to results of the code it had loaded
                        ctx.violation("wrong-version:source-file-edited-before-first-call", f"session {si} running version {k}: f({a}) returned {got}, computed by an earlier session (one of {[e for e in edited_sessions if e < si]}) that had imported "
                                                                                             f"that version before the file was edited and called the function afterwards; sessions so far {hist}", desc)
                    else:
                        ctx.violation(f"wrong-version:processes-{style}" + (":" + shape if shape else ""), f"session {si} running version {k}: f({a}) returned {got}; sessions so far {hist}", desc)
                    return
            if si > 0 and versions[si - 1] == k and not two and not edited:
                # (a session whose file was edited before its first call sees other source text than the recorded one: it recomputes)
                ctx.count("unchanged_sessions_checked")
                again = [e for e in executed if (e[0], e[1]) in {(f"v{kk}", aa) for kk, aa in known}]
                if again:
                    ctx.violation(f"unchanged-code-recomputed:processes-{style}", f"session {si} (code unchanged, version {k}) recomputed {again} although these entries existed; sessions {hist}", desc)
                    return
            for a in args:
                known.add((k, a))
        if len(set(versions)) >= 2:
            ctx.sig((style, hist))
        if case["i"] % 12 == 0:
            ctx.sample(dict(style=style, sessions=hist))
    finally:
        shutil.rmtree(d, ignore_errors=True)


# ---------------------------------------------------------------------------
# a process that stays alive (holding version k1) while fresh processes come and go with version k2


def run_live(case, ctx):
    import subprocess
    import time
    rng = harness.rng_for(ctx.seed, ID, "live", case["i"])
    d = harness.mkscratch("vjl-c12l-")
    log = os.path.join(d, "exec.log")
    open(log, "w").close()
    k1 = rng.randint(1, 3)
    k2 = k1 if case["i"] % 3 == 0 else rng.choice([k for k in (1, 2, 3) if k != k1])
    same = k1 == k2
    cf = os.path.join(d, "live.json")
    with open(cf, "w") as f:
        json.dump(dict(dir=d, version=k1, log=log, lifetime=200), f)
    lf = open(os.path.join(d, "live.log"), "wb")
    live = subprocess.Popen([harness.PY, "-X", "faulthandler", LIVE, cf], env=harness.child_env(), stdin=subprocess.DEVNULL, stdout=lf, stderr=lf,
                            start_new_session=True, cwd=d)
    ncmd = [0]
    hist = []
    ctx.evaluated()

    def ask_live(args):
        n = ncmd[0]
        ncmd[0] += 1
        with open(os.path.join(d, f"cmd{n}.json.tmp"), "w") as f:
            json.dump(dict(op="call", args=args), f)
        os.replace(os.path.join(d, f"cmd{n}.json.tmp"), os.path.join(d, f"cmd{n}.json"))
        t_end = time.monotonic() + 90
        rf = os.path.join(d, f"res{n}.json")
        while time.monotonic() < t_end:
            if os.path.exists(rf):
                return json.load(open(rf))
            if live.poll() is not None:
                return None
            time.sleep(0.01)
        return None

    def fresh(k, args, si):
        c, o = os.path.join(d, f"cfg{si}.json"), os.path.join(d, f"out{si}.json")
        with open(c, "w") as f:
            json.dump(dict(style="module", version=k, args=args, dir=d, log=log, shape=None, which=None), f)
        r = harness.run_py([SESSION, c, o], timeout=120, result_file=o, cwd=d)
        return r["result"], r["err"]

    try:
        steps = [("live", k1)]
        for _ in range(rng.randint(1, 3)):
            steps += [("fresh", k2), ("live", k1)]
        steps.append(("fresh", k2))
        for si, (who, k) in enumerate(steps):
            args = [rng.randint(0, 2) for _ in range(rng.randint(1, 3))]
            if who == "live":
                res = ask_live(args)
                err = None if res else open(os.path.join(d, "live.log"), "rb").read()[-300:].decode("utf8", "replace")
                ctx.count("calls_of_a_live_older_process" if not same and si else "calls_of_a_live_process")
            else:
                res, err = fresh(k, args, si)
                ctx.count("fresh_process_sessions")
            hist.append((who, k, args))
            desc = dict(style="live-process", k_live=k1, k_fresh=k2, steps=hist)
            if not res:
                ctx.inconclusive("session-failed", dict(desc=desc, err=str(err)[-300:]))
                return
            if "error" in res:
                ctx.violation("raises:live-process" + ("" if same else "-older"), f"{who} process (version {k}) raised {res['error']}; steps {hist}", desc)
                return
            for a, got in zip(args, res["values"]):
                ctx.count("calls_checked")
                if got != [f"v{k}", a]:
                    # one key per mechanism: a process that validated the recorded code before another process replaced it keeps
                    # trusting the directory (reads the newer code's values, stores its own below the newer code)
                    key = "wrong-version:live-process-same-code" if same else "wrong-version:live-older-process"
                    ctx.violation(key, f"{who} process running version {k}: f({a}) returned {got}; steps {hist} (live process holds version {k1})", desc)
                    return
        ctx.count("live_histories")
        ctx.sig(("live", hist))
        if case["i"] % 6 == 0:
            ctx.sample(dict(style="live-process", steps=hist))
    finally:
        try:
            with open(os.path.join(d, f"cmd{ncmd[0]}.json"), "w") as f:
                json.dump(dict(op="quit"), f)
            live.wait(5)
        except Exception:  # noqa
            pass
        if live.poll() is None:
            harness.kill_group(live.pid)
        lf.close()
        shutil.rmtree(d, ignore_errors=True)
