"""child of C11: threads of ONE process calling cached functions while other threads clear / evict, with seeded
pre-emption injected at line boundaries of joblib's memory / store modules (sys.monitoring): races on in-memory state
that no file-system call separates.  usage: c11_threads.py <cfg.json> <out.json>"""
import collections
import json
import os
import random
import shutil
import sys
import tempfile
import threading
import time
import traceback
import warnings

cfg = json.load(open(sys.argv[1]))
warnings.simplefilter("ignore")
sys.path.insert(0, cfg["moddir"])

import joblib  # noqa: E402
import joblib._store_backends as jsb  # noqa: E402
import joblib.backports as jbp  # noqa: E402
import joblib.disk as jd  # noqa: E402
import joblib.memory as jm  # noqa: E402
from joblib import Memory  # noqa: E402

import c11funcs  # noqa: E402
from vlib import yieldinj  # noqa: E402

import logging  # noqa: E402

errs = collections.Counter()
witness = {}
counts = collections.Counter()
lock = threading.Lock()
inj = yieldinj.Injector([jm, jsb, jd, jbp], 0, p_yield=cfg["p_yield"], p_sleep=cfg["p_sleep"]).__enter__()
devnull = open(os.devnull, "w")
ROUND = [None]


class LoadFailures(logging.Handler):
    """joblib recovers from ANY exception while loading a cached result (it logs it and recomputes).  An entry removed by a
    concurrent clear / eviction makes the load fail with FileNotFoundError / KeyError - but a result file whose CONTENT cannot
    be read (truncated, mixed, not a pickle) was visible under its final name without being one complete result."""

    def emit(self, record):
        msg = record.getMessage()
        if "Exception while loading results" not in msg:
            return
        last = [ln for ln in msg.strip().splitlines() if ln.strip()][-1].strip()
        etype = last.split(":")[0].split(".")[-1]
        with lock:
            counts["loads_joblib_recovered_from:" + etype] += 1
            if etype not in ("FileNotFoundError", "KeyError", "NotADirectoryError"):
                errs["reader-saw-unreadable-result-file:" + etype] += 1
                witness.setdefault("reader-saw-unreadable-result-file:" + etype, dict(error=last[:200], round=ROUND[0], tail=msg[-600:]))


logging.getLogger().addHandler(LoadFailures())
for rnd in range(cfg["rounds"]):
    rng = random.Random(cfg["seed"] * 1009 + rnd)
    inj.reseed(cfg["seed"] * 1009 + rnd)
    ROUND[0] = rnd
    d = tempfile.mkdtemp(prefix="c11t-", dir=cfg["scratch"])
    kw = dict(verbose=0, compress=rng.choice([False, False, True]))
    if not kw["compress"] and rng.random() < 0.25:
        kw["mmap_mode"] = "r"
    mem = Memory(d, **kw)
    c = mem.cache(c11funcs.f)
    if rng.random() < 0.5:
        c(1), c(2)
    stop = threading.Event()
    ncallers = rng.randint(2, 4)
    disturbers = rng.sample(["memclear", "fclear", "reduce", "reduce0", "recache"], rng.randint(1, 2))

    def caller(i, r):
        for k in range(r.randint(15, 30)):
            x = r.choice([1, 2, 3, 5]) if r.random() < 0.9 else 7
            form = r.choice(["call", "call", "call", "shelve", "check"])
            try:
                if form == "call":
                    v = c(x)
                elif form == "shelve":
                    ref = c.call_and_shelve(x)
                    try:
                        v = ref.get()
                    except (KeyError, OSError):
                        # the entry was removed after the reference was handed out: a reference cannot recompute
                        with lock:
                            counts["shelved_reference_cleared_before_get"] += 1
                        continue
                else:
                    c.check_call_in_cache(x)
                    v = c(x)
                with lock:
                    counts["calls"] += 1
                if not c11funcs.valid(list(v), x):
                    with lock:
                        errs["wrong-value"] += 1
                        witness.setdefault("wrong-value", dict(x=x, got=str(v)[:120], round=rnd, disturbers=disturbers, kw=str(kw)))
            except Exception as e:  # noqa
                tb = traceback.extract_tb(e.__traceback__)
                fr = [t for t in tb if "/joblib/" in t.filename][-1:] or tb[-1:]
                key = f"{type(e).__name__}@{os.path.basename(fr[0].filename)}:{fr[0].name}"
                with lock:
                    errs[key] += 1
                    witness.setdefault(key, dict(x=x, form=form, msg=str(e)[:200], round=rnd, disturbers=disturbers, kw=str(kw),
                                                 where=[f"{os.path.basename(t.filename)}:{t.name}:{t.lineno}" for t in tb][-5:]))

    def disturber(kind, r):
        while not stop.is_set():
            try:
                if kind == "memclear":
                    mem.clear(warn=False)
                elif kind == "fclear":
                    c.clear(warn=False)
                elif kind == "reduce":
                    mem.reduce_size(items_limit=r.choice([0, 1, 2]))
                elif kind == "reduce0":
                    mem.reduce_size(bytes_limit=0)
                else:
                    mem.cache(c11funcs.f)(r.choice([1, 2]))   # another wrapper of the same function on the same Memory
                with lock:
                    counts["disturbances"] += 1
            except Exception as e:  # noqa
                with lock:
                    counts[f"disturber_raised:{kind}:{type(e).__name__}"] += 1
            time.sleep(r.choice([0, 0.0005, 0.002]))

    so, se = sys.stdout, sys.stderr
    sys.stdout = sys.stderr = devnull     # joblib prints a traceback for each load it recovers from
    # in a third of the rounds all threads carry ONE explicit name (Thread(name="worker") started several times): a name
    # identifies nothing
    same_name = rnd % 3 == 1
    if same_name:
        counts["rounds_with_identically_named_threads"] += 1
    ts = [threading.Thread(target=caller, args=(i, random.Random(rng.random())), **(dict(name="worker") if same_name else {})) for i in range(ncallers)]
    ds = [threading.Thread(target=disturber, args=(k, random.Random(rng.random())), **(dict(name="worker") if same_name else {})) for k in disturbers]
    for t in ts + ds:
        t.start()
    for t in ts:
        t.join()
    stop.set()
    for t in ds:
        t.join()
    # "concurrent writers of one entry leave one complete result, never a mixture": every result file left under its final
    # name is read back (a mixture that does not even unpickle would otherwise be recomputed silently by the next call)
    for dp, _, fns in os.walk(d):
        if "output.pkl" in fns:
            counts["result_files_read_back"] += 1
            try:
                v = joblib.load(os.path.join(dp, "output.pkl"))
                ok = c11funcs.valid(list(v))
                why = str(v)[:120]
            except Exception as e:  # noqa
                ok, why = False, f"{type(e).__name__}: {e}"[:200]
            if not ok:
                errs["result-file-not-one-complete-result"] += 1
                witness.setdefault("result-file-not-one-complete-result", dict(file=os.path.relpath(dp, d), why=why, round=rnd, disturbers=disturbers, kw=str(kw), same_name=same_name))
    sys.stdout, sys.stderr = so, se
    counts["rounds"] += 1
    shutil.rmtree(d, ignore_errors=True)
inj.__exit__(None, None, None)
with open(sys.argv[2] + ".tmp", "w") as f:
    json.dump(dict(errs=dict(errs), witness=witness, counts=dict(counts), events=inj.events, yields=inj.yields, points=len(inj.points), joblib=joblib.__file__), f)
os.replace(sys.argv[2] + ".tmp", sys.argv[2])
