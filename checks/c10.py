"""C10 - a dying loky worker yields a prompt error, never a hang, and workers heal.

Monitor: one subprocess session per case runs a history of Parallel calls on the
loky backend with one injected worker death (victims x signal x instant in the
task life-cycle, incl. 'blocked while sending its result' through the
interposer's pipekill mode); the parent classifies hangs from two stack dumps.
"""

import json
import os
import re
import shutil

from vlib import harness

ID = "C10"
LEVEL = "fault_enumeration"
RULE = ("a case is (history of 2-5 loky Parallel calls, with/without `with`, n_jobs 2-4, task arguments of 0 / 0.1 / 0.3 / 1 / 1.5 MB - larger than the pipe buffer, so that the call queue's feeder thread is blocked in a write when every worker is busy) x one fault: victims 1..n_jobs x how "
        "{SIGKILL, SIGSEGV, os._exit(3), os._exit(chosen status 0..255), SIGTERM} x instant {arg_unpickle, task_start, mid_task, task_end, result_pickle, "
        "result_send_small, result_send_large, idle_between_calls (signals from outside, or a thread left behind in the worker ending it with a chosen status - 0 included - for one, all but one or all idle workers), next_call_startup, next_call_startup_other_n_jobs (the next call asks for another n_jobs, so the executor is being resized or gracefully replaced when the idle worker dies), after_idle_timeout (every worker has left after idle_worker_timeout = 1 s; the next call has a single batch whose worker dies, alone or after killing the other freshly started workers), death_while_caller_pulls_input (the input iterable keeps the caller's thread inside its initial dispatch loop until the executor has noticed the death), executor_replacement / executor_resize (a generator call is running when a second call "
        "with other executor arguments / another n_jobs makes loky shut the executor down gracefully or resize it, and the worker dies while that waits)}; the quick tier enumerates every "
        "instant x how once, the thorough tier crosses them with victims, n_jobs, call position and batch size; "
        "distinct_nontrivial counts distinct (instant, how, victims, n_jobs, call index, managed) whose fault really "
        "happened (a call failed or worker pids changed)"
        " Task arguments range up to 1.5 MB; the instant death_while_caller_pulls_input stalls the input at item n_jobs until the executor has noticed the death.")
ASSUMPTIONS = [
    "a call either returns exactly the expected list or raises a BrokenProcessPool subclass; at most one call fails per fault; "
    "the call after a failing call returns the expected list computed by live pids",
    "bounded progress: the whole history (a handful of 20 ms tasks, observed < 3 s) must finish within the watchdog (30 s quick / "
    "60 s thorough); a run that overruns it is a hang only if the thread making the calls has the same stack in two dumps 10-15 s apart (other threads may spin), otherwise inconclusive",
    "fan-out is limited to 6 cases at a time so that machine load is not the fault",
]
SHARDS = {"quick": 6, "thorough": 6}
FLOORS = {"quick": {"cases_with_fault_observed": 25, "calls_checked": 70, "instants_covered": 14, "deaths_while_the_executor_is_replaced_or_resized": 6, "idle_workers_ending_with_a_chosen_exit_status": 8, "cases_with_task_arguments_larger_than_a_pipe_buffer": 10},
          "thorough": {"cases_with_fault_observed": 300, "calls_checked": 1200, "instants_covered": 14, "deaths_while_the_executor_is_replaced_or_resized": 80, "idle_workers_ending_with_a_chosen_exit_status": 80}}
CHILD = os.path.join(harness.VERIF, "checks", "c10_child.py")
INSTANTS = ["arg_unpickle", "task_start", "mid_task", "task_end", "result_pickle", "result_send_small", "result_send_large",
            "idle_between_calls", "next_call_startup", "executor_replacement", "executor_resize", "next_call_startup_other_n_jobs", "after_idle_timeout",
            "death_while_caller_pulls_input"]
HOWS = ["SIGKILL", "SIGSEGV", "exit", "SIGTERM"]


def setup(tier):
    harness.ensure_shim()


def cases(tier, seed):
    i = 0
    rng = harness.rng_for(seed, ID, "cases")
    if tier == "quick":
        for inst in INSTANTS:
            hows = ["SIGKILL"] if inst in ("result_send_small", "result_send_large", "next_call_startup", "next_call_startup_other_n_jobs") else ["SIGKILL", "exit"] if inst == "after_idle_timeout" else HOWS
            for how in hows:
                yield mk(rng, i, inst, how)
                i += 1
        for _ in range(8):
            yield mk(rng, i, rng.choice(INSTANTS[:5]), rng.choice(HOWS), victims=rng.choice([2, 3]))
            i += 1
        for code in (0, 1, 127, 137, 160, 200, 254, 255):
            # abrupt exits with a chosen status: whatever the number, a worker that vanishes mid-call is a dead worker
            yield mk(rng, i, rng.choice(["task_start", "mid_task", "task_end"]), f"exit:{code}")
            i += 1
        for code, v in ((0, "all"), (0, 1), (0, "all-but-one"), (1, "all"), (0, "all"), (3, 1)):
            # an IDLE worker ending with a status of its own choosing (a thread left behind calls os._exit): status 0 looks
            # like a clean exit; among the idle workers one holds the call queue's reader lock, so all / all but one of them die
            yield mk(rng, i, "idle_between_calls", f"exit:{code}", victims=v)
            i += 1
        for k in range(8):
            # task arguments of 0.3 - 1.5 MB, more tasks than workers, slower tasks: the feeder thread of the call queue is blocked
            # half-way through a write when the worker dies
            c = mk(rng, i, ["task_start", "mid_task", "task_end", "mid_task"][k % 4], ["SIGKILL", "exit", "SIGTERM", "SIGKILL"][k % 4], victims=1)
            c.update(arg_bytes=[300_000, 1_500_000][k % 2], N=3 * c["J"] + 1, dur=0.2, pre_dispatch=["2*n_jobs", "all"][k // 4 % 2])
            c["fault"]["victim_tasks"] = [k % c["J"]]
            yield c
            i += 1
        for _ in range(10):
            # the window (executor being resized / replaced at the start of the next call) is a few ms wide
            yield mk(rng, i, "next_call_startup_other_n_jobs", "SIGKILL", victims=rng.choice([1, 1, 2]))
            i += 1
    else:
        for rep in range(18):
            for inst in INSTANTS:
                hows = ["SIGKILL"] if inst in ("result_send_small", "result_send_large", "next_call_startup", "next_call_startup_other_n_jobs") else ["SIGKILL", "exit"] if inst == "after_idle_timeout" else HOWS
                for how in hows:
                    if inst == "result_send_large" and rep > 2:
                        continue
                    yield mk(rng, i, inst, how, victims=rng.choice([1, 1, 2, 3, 4]))
                    i += 1
            for _ in range(5):
                yield mk(rng, i, "next_call_startup_other_n_jobs", "SIGKILL", victims=rng.choice([1, 1, 2]))
                i += 1
            for _ in range(3):
                yield mk(rng, i, "idle_between_calls", f"exit:{rng.choice([0, 0, 0, 1, 2, 137, 255])}", victims=rng.choice([1, "all", "all", "all-but-one"]))
                i += 1
            for _ in range(4):
                yield mk(rng, i, rng.choice(["task_start", "mid_task", "task_end", "result_pickle"]), f"exit:{rng.choice([0, 1, 2, 127, 128, 129, 137, 139, 143, 160, 161, 192, 193, 200, 254, 255])}", victims=rng.choice([1, 1, 2]))
                i += 1


def mk(rng, i, inst, how, victims=1):
    J = rng.choice([2, 3, 4])
    if inst == "next_call_startup_other_n_jobs":
        # only one idle worker holds the call queue's reader lock: killing all but one makes it likely that the holder dies
        # and a survivor is left behind it
        victims = rng.choice([1, J - 1, J - 1])
    victims = {"all": J, "all-but-one": J - 1}.get(victims, victims)
    victims = min(victims, J)
    N = rng.choice([J, 2 * J, 3 * J + 1])
    ncalls = rng.randint(2, 5)
    call = rng.randrange(1 if inst in ("idle_between_calls", "next_call_startup", "next_call_startup_other_n_jobs", "after_idle_timeout") else 0, ncalls) if ncalls > 1 else 0
    if inst in ("idle_between_calls", "next_call_startup", "next_call_startup_other_n_jobs", "after_idle_timeout"):
        call = max(call, 1)
    if inst == "after_idle_timeout":
        # one victim: the worker running the only batch; "all": that worker first kills the other (idle) new workers
        victims = rng.choice([1, J, J])
    if inst == "death_while_caller_pulls_input":
        # (the input stalls while the caller is still pre-dispatching: there must be more pre-dispatched items than workers)
        N = max(N, 2 * J + 1)
    managed = rng.random() < 0.5 and inst not in ("executor_replacement", "executor_resize", "next_call_startup_other_n_jobs")
    return dict(i=i, J=J, N=N, ncalls=ncalls, managed=managed, batch_size=rng.choice([1, 1, 2]), arg_bytes=rng.choice([0, 0, 0, 0, 100_000, 1_000_000]),
                pre_dispatch=rng.choice(["2*n_jobs", "all"]), dur=0.02,
                fault=dict(call=call, instant=inst, how=how, victims=victims, victim_tasks=sorted(rng.sample(range(N), victims)),
                           J2=rng.choice([j for j in (2, 3, 4) if j != J]),
                           delay=rng.choice([0.0, 0.005, 0.02, 0.05]) if inst != "next_call_startup_other_n_jobs" else rng.choice([0.0, 0.0, 0.0002, 0.0005, 0.001, 0.002]), settle=rng.choice([0.0, 0.005, 0.02, 0.05, 0.1, 0.3])))


def caller_stack(dump):
    """the stack of the thread that runs the history of calls (the others - e.g. a manager thread spinning - may move)"""
    for block in re.split(r"\n\s*\n", re.sub(r"0x[0-9a-f]+", "", dump)):
        if "c10_child.py" in block and "in main" in block:
            return "\n".join(block.strip().splitlines()[1:])
    return ""


def same_stacks(st):
    a, b = caller_stack(st[0]), caller_stack(st[1])
    return a != "" and a == b


def run_case(case, ctx):
    d = harness.mkscratch("vjl-c10-")
    try:
        cf, of = os.path.join(d, "cfg.json"), os.path.join(d, "out.json")
        with open(cf, "w") as f:
            json.dump(case, f)
        wd, gap = (30, 10) if ctx.tier == "quick" else (60, 15)
        r = harness.run_py([CHILD, cf, of], timeout=wd + gap + 25, result_file=of, dump_stacks_at=(wd, gap),
                           env_extra=dict(LD_PRELOAD=harness.SHIM, LOKY_MAX_CPU_COUNT="8"))
        ctx.evaluated()
        f = case["fault"]
        desc = dict(case)
        key_inst = f"kill-instant={f['instant']}"
        ctx.add("instants_covered", f["instant"])
        if f["instant"] == "idle_between_calls" and str(f["how"]).startswith("exit:"):
            ctx.count("idle_workers_ending_with_a_chosen_exit_status", f["victims"])
            ctx.add("idle_exit_statuses", f["how"])
        if case.get("arg_bytes"):
            ctx.count("cases_with_task_arguments_larger_than_a_pipe_buffer")
        if r["result"] is None:
            prog = []
            try:
                prog = [json.loads(l) for l in open(of + ".progress")]
            except OSError:
                pass
            in_call = next((p["call"] for p in reversed(prog) if p["ev"] == "call_start"), None)
            ended = {p["call"] for p in prog if p["ev"] == "call_end"}
            if r["stacks"] and len(r["stacks"]) == 2 and same_stacks(r["stacks"]) and in_call is not None and in_call not in ended:
                st = r["stacks"][1]
                mech = "partial-result-message" if ("wait_result_broken_or_wakeup" in st and "_recv" in st) else key_inst
                ctx.violation(f"hang:{mech}",
                              f"Parallel call {in_call} never returned after a worker died ({f['how']} at {f['instant']}, {f['victims']} victim(s), "
                              f"n_jobs={case['J']}): two stack dumps 15 s apart are identical", dict(desc, stack=r["stacks"][1][-2500:], progress=prog[-6:]))
                ctx.count("cases_with_fault_observed")
                ctx.sig((f["instant"], f["how"], f["victims"], case["J"], f["call"], case["managed"]))
            else:
                ctx.inconclusive("child-failed", dict(desc=desc, rc=r["rc"], err=r["err"][-600:], progress=prog[-4:]))
            return
        out = r["result"]
        # in the overlapped scenarios call B shares the dying executor with call A: it may fail too (with a worker-termination error)
        failing = [c for c in out["calls"] if "exc_type" in c and c.get("sub") != "B"]
        if any("exc_type" in c and c.get("sub") == "B" for c in out["calls"]):
            ctx.count("overlapped_second_call_failed_too")
        if f["instant"] in ("executor_replacement", "executor_resize"):
            ctx.count("deaths_while_the_executor_is_replaced_or_resized")
            a = [c for c in out["calls"] if c.get("sub") == "A"]
            if a and "exc_type" not in a[0]:
                ctx.violation(f"lost-task-not-reported:{key_inst}", f"the generator call whose worker died returned {a[0]} instead of raising; fault {f}", desc)
        fault_seen = bool(failing)
        pids_by_call = [c.get("pids") for c in out["calls"]]
        for a, b in zip(pids_by_call, pids_by_call[1:]):
            if a and b and set(a) - set(b):
                fault_seen = True
        if fault_seen:
            ctx.count("cases_with_fault_observed")
            ctx.sig((f["instant"], f["how"], f["victims"], case["J"], f["call"], case["managed"]))
        else:
            ctx.count("cases_fault_not_observed")
        for c in out["calls"]:
            ctx.count("calls_checked")
            ctx.maxi("max_call_duration_ms", int(c["dur"] * 1000))
            if "exc_type" in c:
                if not c["exc_is_broken_pool"]:
                    ctx.violation(f"wrong-exception:{key_inst}", f"call {c['call']} raised {c['exc_type']}: {c['exc_msg'][:150]} instead of a worker-termination error; fault {f}", desc)
                elif not c["exc_is_terminated_worker"]:
                    ctx.count("broken_pool_not_terminated_worker_error")
            elif not c["out_ok"]:
                ctx.violation(f"wrong-result:{key_inst}", f"call {c['call']} returned {c.get('out')}; fault {f}", desc)
        if len(failing) > 1:
            ctx.violation(f"more-than-one-failing-call:{key_inst}", f"calls {[c['call'] for c in failing]} failed for one fault {f}: "
                                                                    f"{[(c['exc_type'], c['exc_msg'][:80]) for c in failing]}", desc)
        if failing and failing[0]["call"] not in (f["call"], f["call"] + (1 if f["instant"] in ("task_end", "result_send_small", "result_send_large") else 0)):
            ctx.count("failure_in_unexpected_call")
        if out["last_pids"] and set(out["alive_pids"]) != set(out["last_pids"]) and out["calls"] and "pids" in out["calls"][-1]:
            ctx.violation(f"dead-worker-reported-by-last-call:{key_inst}", f"pids of the last successful call {out['last_pids']} but alive {out['alive_pids']}", desc)
        if case["i"] % 9 == 0:
            ctx.sample(dict(fault=f, J=case["J"], N=case["N"], managed=case["managed"],
                            calls=[dict(call=c["call"], outcome=c.get("exc_type", "ok"), ms=int(c["dur"] * 1000)) for c in out["calls"]]))
    finally:
        shutil.rmtree(d, ignore_errors=True)
