"""C02 - a Memory-cached function never returns a value belonging to other arguments.

Monitor: generated functions (real source text in a scratch module) return a
typed fingerprint of their bound non-ignored arguments; every call in a history
is made through the cached wrapper and through the plain function and the two
fingerprints are compared.
"""

import os
import shutil

from vlib import gen_sig, harness, memhist

ID = "C02"
LEVEL = "exploration"
RULE = ("a case is a history of 60-150 calls over 5 generated functions (signatures with <= 4 parameters over the five kinds; "
        "plain functions, bound methods whose instance state is part of the result, async functions) in equivalent call forms "
        "(positional / keyword / defaults spelled out or omitted), near-colliding twins (1 / 1.0 / True / '1', 'a' / b'a', "
        "list / tuple, set / frozenset), keywords that repeat the name of a positional-only parameter, equal str / bytes leaves built as one shared object or as distinct objects, dict and set arguments rebuilt in other insertion orders, direct calls and "
        "call_and_shelve(...).get(), compress in {False, True, 3}, in one process or 2-3 fresh processes taking turns on one "
        "directory; distinct_nontrivial counts distinct (signature, binding) pairs called through the cache"
        " Histories also hold Memory.clear() / func.clear() steps, cache locations spelled relative / with 'sub/..' / through a symbolic link (a spelling per process), pair bindings (one call holding a value and an ==-twin of another type at two slots), instances of dict / set subclasses and Decimal values; every session ends with overlapping calls of one wrapper (recursion through the wrapper, a second thread's miss inside the first one's computation, three asyncio tasks).")
ASSUMPTIONS = [
    "generated functions are pure functions of their arguments; the fingerprint is typed, so 1, 1.0 and True differ",
    "a call the plain function accepts but the wrapper rejects is C06's clause: counted, not judged here",
]
SHARDS = {"quick": 12, "thorough": 14}
FLOORS = {"quick": {"calls_compared": 6000, "twin_pairs_called": 300, "multi_process_histories": 40, "shelved_calls": 1000, "histories_through_recached_wrappers": 25, "sessions_with_overlapping_calls_of_one_wrapper": 100},
          "thorough": {"calls_compared": 80000, "twin_pairs_called": 6000, "multi_process_histories": 300, "shelved_calls": 10000, "histories_through_recached_wrappers": 300}}


def cases(tier, seed):
    n = 150 if tier == "quick" else 1500
    for i in range(n):
        yield dict(i=i)


_SIGS = {}


def sigs():
    if not _SIGS:
        _SIGS["all"] = [s for s in gen_sig.signatures(4)]
    return _SIGS["all"]


def run_case(case, ctx, with_ignore=False, judge=None):
    rng = harness.rng_for(ctx.seed, ID if judge is None else "C06", case["i"])
    allsigs = sigs()
    # stratified: walk through the signature list so that every signature is used in thorough
    start = (case["i"] * 5) % len(allsigs)
    pool = [allsigs[(start + j) % len(allsigs)] for j in range(5)] + [rng.choice(allsigs) for _ in range(3)]
    nproc = rng.choice([1, 1, 2, 3])
    compress = rng.choice([False, False, True, 3])
    funcs, segs = memhist.build_case(rng, pool, with_ignore, nfuncs=5, ncalls=rng.choice([12, 20, 30]), nproc=nproc)
    d = harness.mkscratch("vjl-c02-")
    try:
        recache = rng.choice([None, None, None, "twice", "other-memory", "pickled"])
        verbose = rng.choice([0, 0, 0, 2, 11])     # verbosity only adds messages - built inside the same code paths
        if recache:
            ctx.count("histories_through_recached_wrappers")
        if verbose:
            ctx.count("histories_with_a_verbose_memory")
        # the cache directory under other spellings than its canonical path (one per process): relative to the working directory,
        # with a 'sub/..' detour, through a symbolic link
        styles = rng.choice([None, None, ["relative"], ["dotdot"], ["symlink"], ["plain", "relative", "symlink"], ["dotdot", "plain"]])
        if styles:
            ctx.count("histories_with_a_non_canonical_cache_location")
        outs = memhist.run_sessions(d, f"mh_{case['i']}", funcs, segs, compress=compress, recache=recache, verbose=verbose, location_styles=styles)
        ctx.evaluated()
        if any(o[0] is None for o in outs):
            bad = next(o for o in outs if o[0] is None)
            ctx.inconclusive("session-failed", dict(err=bad[1]["err"][-600:], rc=bad[1]["rc"]))
            return
        if nproc > 1:
            ctx.count("multi_process_histories")
        (judge or judge_c02)(ctx, funcs, segs, outs, dict(compress=compress, nproc=nproc, recache=recache, verbose=verbose, location_styles=styles))
    finally:
        shutil.rmtree(d, ignore_errors=True)


def predicate_key(sig):
    p = gen_sig.predicates(sig)
    return "posonly" if p["posonly"] else ("varargs+kwonly" if p["varargs_kwonly"] else ("default-not-suffix" if p["default_not_suffix"] else "plain"))


def judge_c02(ctx, funcs, segs, outs, meta):
    seen_fp = {}
    for seg, (res, _) in zip(segs, outs):
        if res.get("overlap_done"):
            ctx.count("sessions_with_overlapping_calls_of_one_wrapper")
        for msg in res.get("overlap_errors", [])[:1]:
            ctx.violation("wrong-value:overlapping-calls-of-one-wrapper", msg + f"; {meta}", dict(meta, message=msg))
            return
        for step, rec in zip(seg["steps"], res["steps"]):
            f = funcs[step["f"]]
            if step.get("op") == "clear":
                ctx.count("clears_in_the_middle_of_a_history")
                continue
            c, p = rec["cached"], rec["plain"]
            sstr = f"{f['kind']} {gen_sig.sig_str(tuple(tuple(s) for s in f['sig']))} ignore={f['ignore']}"
            desc = dict(function=sstr, args=step["args"], kwargs=step["kwargs"], how=step["how"], **meta)
            if "exc" in p:
                ctx.count("plain_call_rejected")
                continue
            if "exc" in c:
                ctx.count("wrapper_rejected_valid_call")
                continue
            ctx.count("calls_compared")
            if step["how"] == "shelve":
                ctx.count("shelved_calls")
            if step.get("via_class"):
                ctx.count("method_calls_through_the_class")
            fp = repr(p["v"])
            key = (step["f"], step.get("holder") if f["kind"] in ("method", "classmethod") else None)
            if fp not in seen_fp.setdefault(key, set()):
                seen_fp[key].add(fp)
                ctx.sig((sstr, fp))
            if len(seen_fp[key]) >= 2:
                ctx.count("twin_pairs_called")
            if c["v"] != p["v"]:
                ctx.violation(f"wrong-value:{f['kind']}:{predicate_key(f['sig'])}",
                              f"cached {sstr} called with args={step['args']} kwargs={step['kwargs']} ({step['how']}, compress={meta['compress']}, "
                              f"{meta['nproc']} process(es)) returned {c['v']} but the plain function returns {p['v']}", desc)
                return
    if len(ctx.samples) < 4:
        ctx.sample(dict(functions=[f"{f['kind']} {gen_sig.sig_str(tuple(tuple(s) for s in f['sig']))} ignore={f['ignore']}" for f in funcs],
                        first_steps=[dict(f=s["f"], args=s["args"], kwargs=s["kwargs"], how=s.get("how")) for s in segs[0]["steps"][:4]], **meta))
