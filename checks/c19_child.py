"""child of C19: arrays passed to process workers through automatic memmapping"""
import hashlib
import json
import os
import random
import sys
import warnings

warnings.simplefilter("ignore")
import numpy as np  # noqa: E402

import joblib  # noqa: E402
from joblib import Parallel, delayed  # noqa: E402

from vlib import gen_np  # noqa: E402


def digest(a):
    if a.dtype.hasobject:
        return repr(a.ravel().tolist())
    # values, independent of byte order
    return hashlib.sha1(np.ascontiguousarray(np.asarray(a).astype(a.dtype.newbyteorder("="))).tobytes()).hexdigest()


def probe(a, k):
    def real(x):
        # an np.memmap instance that really maps a file (numpy's own pickling rebuilds the class without a mapping)
        return isinstance(x, np.memmap) and getattr(x, "_mmap", None) is not None

    return dict(k=k, desc=gen_np.describe(a), digest=digest(a), memmap=real(a), pid=os.getpid(),
                base_memmap=real(getattr(a, "base", None)) or real(a),
                writeable=bool(a.flags.writeable), first=repr(a.ravel()[:2].tolist()) if a.size else "[]")


cfg = json.load(open(sys.argv[1]))
rng = random.Random(cfg["seed"])
out = []
for spec in cfg["arrays"]:
    a, eff = gen_np.make(rng, spec["dtype"], spec["shape"], spec["layout"])
    if spec.get("memmap_backed") and not a.dtype.hasobject and a.size:
        path = os.path.join(cfg["dir"], f"mm{len(out)}.bin")
        mm = np.memmap(path, dtype=a.dtype, shape=a.shape, mode="w+", offset=spec.get("mm_offset", 0), order="F" if eff == "F" else "C")
        mm[...] = a
        mm.flush()
        if spec.get("mm_private_write") and a.ndim and a.shape[0] > 1:
            # copy-on-write mapping modified in the parent: the file keeps the old content, the array the parent passes has the new one
            del mm
            mm = np.memmap(path, dtype=a.dtype, shape=a.shape, mode="c", offset=spec.get("mm_offset", 0), order="F" if eff == "F" else "C")
            mm[...] = np.ascontiguousarray(mm[::-1])
        a = mm if not spec.get("mm_slice") else mm[1:] if a.ndim and a.shape[0] > 1 else mm
        v = spec.get("mm_view")
        if v and a.ndim:
            # views on the file-backed array: what the task must see is what the parent sees
            a = {"T": lambda: a.T, "rev": lambda: a[::-1], "rev-last": lambda: a[..., ::-1], "step": lambda: a[::2],
                 "inner": lambda: a[1:, 1:] if a.ndim >= 2 else a[1:], "swap": lambda: a.swapaxes(0, -1),
                 "plain-ndarray": lambda: np.asarray(a), "plain-ndarray-T": lambda: np.asarray(a).T,
                 "rev-all": lambda: a[(slice(None, None, -1),) * a.ndim], "newaxis": lambda: a[None],
                 # the same bytes read as another dtype
                 "as-other-dtype": lambda: a.view({1: "u1", 2: "<u2", 4: "<u4", 8: "<u8", 16: "<c16"}.get(a.dtype.itemsize, "V%d" % a.dtype.itemsize)) if not a.dtype.hasobject and a.flags.c_contiguous else a,
                 "as-swapped-dtype": lambda: a.view(a.dtype.newbyteorder()) if a.dtype.kind in "iufc" else a,
                 "as-bytes": lambda: a.view("u1") if a.flags.c_contiguous and not a.dtype.hasobject else a}[v]()
    size = a.nbytes
    mx = spec["max_nbytes"]
    max_nbytes = {"none": None, "size-1": max(size - 1, 0), "size": size, "size+1": size + 1, "1K": "1K", "0": 0}[mx]
    want = dict(desc=gen_np.describe(np.asarray(a) if isinstance(a, np.memmap) else a), digest=digest(a))
    rec = dict(spec=spec, size=size, want=want)
    try:
        res = Parallel(n_jobs=2, backend=cfg["backend"], max_nbytes=max_nbytes, mmap_mode=spec.get("mmap_mode", "r"))(
            delayed(probe)(a, k) for k in range(3))
        rec["got"] = res
    except BaseException as e:  # noqa
        rec["exc"] = f"{type(e).__name__}: {str(e)[:300]}"
    if spec.get("mutate_between_calls") and not isinstance(a, np.memmap) and a.size > 1 and a.flags.writeable and not a.dtype.hasobject and a.ndim:
        # one managed Parallel object, two calls, the argument modified in place in between
        rec2 = dict(spec=dict(spec, second_call_after_in_place_change=True), size=size)
        try:
            with Parallel(n_jobs=2, backend=cfg["backend"], max_nbytes=max_nbytes, mmap_mode=spec.get("mmap_mode", "r")) as p:
                p(delayed(probe)(a, k) for k in range(2))
                a[...] = np.ascontiguousarray(a[::-1])
                rec2["want"] = dict(desc=gen_np.describe(a), digest=digest(a))
                rec2["got"] = p(delayed(probe)(a, k) for k in range(2))
        except BaseException as e:  # noqa
            rec2["exc"] = f"{type(e).__name__}: {str(e)[:300]}"
            rec2.setdefault("want", want)
        out.append(rec2)
    out.append(rec)
json.dump(dict(runs=out, joblib=joblib.__file__, numpy=np.__version__), open(sys.argv[2], "w"))
sys.stdout.flush()
os._exit(0)
