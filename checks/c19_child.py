"""child of C19: arrays passed to process workers through automatic memmapping"""
import hashlib
import json
import os
import random
import sys
import warnings

warnings.simplefilter("ignore")
import numpy as np  # noqa: E402

import joblib  # noqa: E402
from joblib import Parallel, delayed  # noqa: E402

from vlib import gen_np  # noqa: E402


def digest(a):
    if a.dtype.hasobject:
        return repr(a.ravel().tolist())
    # values, independent of byte order
    return hashlib.sha1(np.ascontiguousarray(np.asarray(a).astype(a.dtype.newbyteorder("="))).tobytes()).hexdigest()


def probe(a, k):
    return dict(k=k, desc=gen_np.describe(a), digest=digest(a), memmap=isinstance(a, np.memmap), pid=os.getpid(),
                base_memmap=isinstance(getattr(a, "base", None), np.memmap) or isinstance(a, np.memmap),
                writeable=bool(a.flags.writeable), first=repr(a.ravel()[:2].tolist()) if a.size else "[]")


cfg = json.load(open(sys.argv[1]))
rng = random.Random(cfg["seed"])
out = []
for spec in cfg["arrays"]:
    a, eff = gen_np.make(rng, spec["dtype"], spec["shape"], spec["layout"])
    if spec.get("memmap_backed") and not a.dtype.hasobject and a.size:
        path = os.path.join(cfg["dir"], f"mm{len(out)}.bin")
        mm = np.memmap(path, dtype=a.dtype, shape=a.shape, mode="w+", offset=spec.get("mm_offset", 0), order="F" if eff == "F" else "C")
        mm[...] = a
        mm.flush()
        a = mm if not spec.get("mm_slice") else mm[1:] if a.ndim and a.shape[0] > 1 else mm
        v = spec.get("mm_view")
        if v and a.ndim:
            # views on the file-backed array: what the task must see is what the parent sees
            a = {"T": lambda: a.T, "rev": lambda: a[::-1], "rev-last": lambda: a[..., ::-1], "step": lambda: a[::2],
                 "inner": lambda: a[1:, 1:] if a.ndim >= 2 else a[1:], "swap": lambda: a.swapaxes(0, -1),
                 "plain-ndarray": lambda: np.asarray(a), "plain-ndarray-T": lambda: np.asarray(a).T,
                 "rev-all": lambda: a[(slice(None, None, -1),) * a.ndim], "newaxis": lambda: a[None]}[v]()
    size = a.nbytes
    mx = spec["max_nbytes"]
    max_nbytes = {"none": None, "size-1": max(size - 1, 0), "size": size, "size+1": size + 1, "1K": "1K", "0": 0}[mx]
    want = dict(desc=gen_np.describe(np.asarray(a) if isinstance(a, np.memmap) else a), digest=digest(a))
    rec = dict(spec=spec, size=size, want=want)
    try:
        res = Parallel(n_jobs=2, backend=cfg["backend"], max_nbytes=max_nbytes, mmap_mode=spec.get("mmap_mode", "r"))(
            delayed(probe)(a, k) for k in range(3))
        rec["got"] = res
    except BaseException as e:  # noqa
        rec["exc"] = f"{type(e).__name__}: {str(e)[:300]}"
    out.append(rec)
json.dump(dict(runs=out, joblib=joblib.__file__, numpy=np.__version__), open(sys.argv[2], "w"))
sys.stdout.flush()
os._exit(0)
