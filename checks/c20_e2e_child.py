"""child of C20's end-to-end layer: a loky Parallel call with automatically memmapped arguments.
usage: c20_e2e_child.py cfg.json  (writes <dir>/pids.txt as soon as tasks report, <dir>/done when finished)"""
import json
import os
import sys
import time
import warnings

warnings.simplefilter("ignore")
cfg = json.load(open(sys.argv[1]))
import numpy as np  # noqa: E402

import joblib  # noqa: E402
from joblib import Parallel, delayed  # noqa: E402


def probe(a, i, d, dur):
    with open(os.path.join(d, "pids.txt"), "a") as f:
        f.write(f"{os.getpid()} {int(isinstance(a, np.memmap) or isinstance(getattr(a, 'base', None), np.memmap))} {getattr(a, 'filename', '')}\n")
    time.sleep(dur)
    return float(a[i])


d = cfg["dir"]
with open(os.path.join(d, "pids.txt"), "a") as f:
    f.write(f"{os.getpid()} -1 parent\n")
arr = np.arange(300000, dtype="f8")
p = Parallel(n_jobs=2, backend="loky", max_nbytes=1000, temp_folder=cfg["temp"], idle_worker_timeout=cfg.get("idle", 2))
for call in range(cfg["calls"]):
    out = p(delayed(probe)(arr, i, d, cfg["dur"]) for i in range(cfg["tasks"]))
    assert out == [float(i) for i in range(cfg["tasks"])], out
    open(os.path.join(d, f"call{call}.done"), "w").close()
open(os.path.join(d, "done"), "w").close()
if cfg.get("linger"):
    time.sleep(cfg["linger"])
