"""C18 - Memory.reduce_size evicts the minimal LRU prefix meeting all limits.

Monitor: real stores built by real cached calls; inventory (dir, sum of file
sizes, atime) taken by the check's own os.stat scan immediately before the call
and the surviving directories immediately after; declarative oracle.
"""

import datetime
import os
import re
import shutil
import time
import warnings

from vlib import harness

ID = "C18"
LEVEL = "exploration"
RULE = ("a case is one store (in a process time zone drawn from UTC, Asia/Tokyo, Etc/GMT+5, Europe/Paris, America/New_York; in the two DST zones access times often straddle the repeated hour at the end of DST) of 0-12 entries (real cached calls of 1-3 functions returning bytes of chosen sizes - in a third of the stores one of them is defined inside another cached function, so its entries live below that function's directory - plus empty "
        "32-hex 'zero-size' entries), access times set with os.utime (ties, increasing, seconds to months, and times ahead of the clock), and one "
        "(bytes_limit, items_limit, age_limit) triple from {None, 0, exact fit, fit-1, half, '1K', '0.5K', huge} x "
        "{None, 0, 1, n-1, n, n+1} x {None, 0s, between two entries, older than all, a fractional limit 0.45 s away from one entry}; distinct_nontrivial counts distinct "
        "(sizes, ages, limits) stores in which at least one entry was evicted and at least one limit was given")
ASSUMPTIONS = [
    "no concurrent writer; the check's own stat scan immediately before the call is the inventory",
    "age deadlines are kept >= 60 s away from every entry so that the clock read inside the call cannot flip a verdict, except for one deliberately placed entry 0.45 s from a fractional deadline (cases slower than 0.35 s are discarded)",
    "ties in access time may be broken either way",
    "an entry's size is the sum of the sizes of the files in its directory (what the store reports)",
]
SHARDS = {"quick": 12, "thorough": 14}
FLOORS = {"quick": {"fractional_age_limit_cases": 30, "contract_evaluations_in_repo_tests": 8, "conclusive": 2000, "stores_with_eviction": 600, "survivor_hits_checked": 2000, "evicted_recomputed_checked": 1500, "second_reductions_after_entries_were_rewritten_in_place": 60},
          "thorough": {"contract_evaluations_in_repo_tests": 8, "conclusive": 30000, "stores_with_eviction": 10000, "survivor_hits_checked": 30000, "evicted_recomputed_checked": 25000}}

CALLS = []


GROW = {}      # (i, n) -> size of the result when the entry is computed AGAIN (the function's output changed, e.g. more data)


def blob(i, n):
    CALLS.append(("blob", i, n))
    return b"x" * GROW.get((i, n), n)


def blob2(i, n):
    CALLS.append(("blob2", i, n))
    return b"y" * n


def blob3(i, n, _nested=False):
    """cached itself AND the place where another cached function is defined: the nested function's entries live below
    blob3's own directory (<module>/blob3/<locals>/nested/<id>), next to blob3's entries"""
    def nested(i, n):
        CALLS.append(("nested", i, n))
        return b"n" * n
    if _nested:
        return nested
    CALLS.append(("blob3", i, n))
    return b"z" * n


nested = blob3(0, 0, _nested=True)


def hexnamed(i, n):
    CALLS.append(("hexnamed", i, n))
    return b"h" * n


# a function whose directory name merely BEGINS like an entry id (32 hex characters)
hexnamed.__name__ = hexnamed.__qualname__ = "abcdef0123456789abcdef0123456789_fn"


def hexexact(i, n):
    CALLS.append(("hexexact", i, n))
    return b"e" * n


# ... and one whose directory name IS 32 hex characters: the directory holds func_code.py and the entries, it is not an entry
hexexact.__name__ = hexexact.__qualname__ = "0123456789abcdef0123456789abcdef"


def cases(tier, seed):
    n = 2400 if tier == "quick" else 40000
    for i in range(n):
        yield dict(i=i)
    yield dict(i=-1, contract=True)


HEX = re.compile("[a-f0-9]{32}$")


def scan(d):
    out = {}
    for dp, _, fns in os.walk(d):
        if dp.rstrip("/").endswith("/0123456789abcdef0123456789abcdef"):     # the store's own directory in the cases that name it so
            continue
        if HEX.match(os.path.basename(dp)) and "func_code.py" not in fns:   # an entry, not the directory of a function named like one
            op = os.path.join(dp, "output.pkl")
            at = os.stat(op).st_atime if os.path.exists(op) else os.stat(dp).st_atime
            out[dp] = (sum(os.path.getsize(os.path.join(dp, x)) for x in fns), at)
    return out


def breaks(S, inv, bl, il, dl):
    if bl is not None and sum(inv[p][0] for p in S) > bl:
        return "bytes"
    if il is not None and len(S) > il:
        return "items"
    if dl is not None and any(inv[p][1] <= dl for p in S):
        return "age"
    return None


def run_case(case, ctx):
    if case.get("contract"):
        # the repository's own Memory tests with conditions (1)-(3) installed as an icontract postcondition on _get_items_to_delete
        state, r = harness.run_repo_tests_with_contracts(["joblib/test/test_memory.py"])
        if state is None:
            ctx.inconclusive("contract-run-failed", r["err"][-500:] + r["out"][-500:])
            return
        ctx.count("contract_evaluations_in_repo_tests", state["items_to_delete_evals"])
        for v in state["items_to_delete_violations"][:3]:
            ctx.violation("contract:" + v["why"].replace(" ", "-"), f"while the repository's tests ran: _get_items_to_delete limits {v['limits']} over {v['items']}: {v['why']}", v)
        return
    from joblib import Memory

    rng = harness.rng_for(ctx.seed, ID, case["i"])
    d = harness.mkscratch("vjl-c18-")
    # the process time zone: access times are instants, their order and age do not depend on how the local clock labels them
    tz = rng.choice([None, None, None, "Asia/Tokyo", "Etc/GMT+5", "Europe/Paris", "America/New_York"])
    if tz:
        os.environ["TZ"] = tz
        ctx.count("stores_in_a_non_utc_time_zone")
    else:
        os.environ.pop("TZ", None)
    time.tzset()
    try:
        with warnings.catch_warnings():
            warnings.simplefilter("ignore")
            loc = d
            if case["i"] % 7 == 3:
                # the cache lives in a directory named like an entry id (e.g. after a hash of the project), given as a
                # pathlib.Path (Memory then uses the directory itself, without a 'joblib' sub-directory): it is the store, not an entry
                import pathlib
                loc = pathlib.Path(os.path.join(d, "0123456789abcdef0123456789abcdef"))
                ctx.count("stores_whose_own_directory_is_named_like_an_entry_id")
            mem = Memory(loc, verbose=0, compress=rng.choice([False, False, True]))
            fs = {"blob": mem.cache(blob), "blob2": mem.cache(blob2), "blob3": mem.cache(blob3), "nested": mem.cache(nested), "hexnamed": mem.cache(hexnamed), "hexexact": mem.cache(hexexact)}
        if case["i"] % 3 == 0:
            # the enclosing function records its code first: its first call on a directory that already holds the
            # nested function's entries would (legitimately) wipe that directory
            fs["blob3"](-1, 0)
            shutil.rmtree(os.path.join(mem.store_backend.location, fs["blob3"].func_id, fs["blob3"]._get_args_id(-1, 0)))
        n = rng.choice([0, 1, 2, 3, 4, 5, 6, 8, 12])
        sizes = [rng.choice([0, 10, 1000, 1000, 5000, 5000, 200000 if rng.random() < 0.1 else 37]) for _ in range(n)]
        del CALLS[:]
        keys = []
        for i in range(n):
            fn = rng.choice((["blob", "blob", "blob2"] if case["i"] % 5 else ["blob", "hexnamed", "hexexact", "hexexact"]) if case["i"] % 3 else ["blob", "blob3", "nested", "nested"])
            fs[fn](i, sizes[i])
            keys.append((fn, i, sizes[i]))
        assert len(CALLS) == n
        # wrapping a function creates its (empty) directory: the one named like an entry id would count as a zero-size entry
        try:
            os.rmdir(os.path.join(mem.store_backend.location, fs["hexexact"].func_id))
        except OSError:
            pass
        # map entry dir -> key by scanning after each? cheaper: ask joblib for the id
        dirs = {}
        for fn, i, sz in keys:
            f = fs[fn]
            call_id = (f.func_id, f._get_args_id(i, sz))
            dirs[os.path.join(mem.store_backend.location, *call_id)] = (fn, i, sz)
        # zero-size entries: empty 32-hex directories next to the real ones
        nz = rng.choice([0, 0, 0, 1, 2])
        zdirs = []
        for z in range(nz):
            zd = os.path.join(mem.store_backend.location, "zz", "f", "%032x" % (rng.getrandbits(120) + z))
            os.makedirs(zd)
            zdirs.append(zd)
        now = time.time()
        mode = rng.choice(["ties", "increasing", "spread", "spread", "future", "future-mixed"])
        fold = {"Europe/Paris": 1761440400, "America/New_York": 1762063200}.get(tz)     # end of DST 2025: the local hour before is repeated
        if fold and rng.random() < 0.6:
            mode = "dst-fold"
            ctx.count("stores_with_access_times_around_the_end_of_dst")
        all_dirs = sorted(dirs) + zdirs
        rng.shuffle(all_dirs)
        ages = {}
        for k, p in enumerate(all_dirs):
            if mode == "dst-fold":
                a = now - (fold + rng.choice([-1, 1]) * rng.randrange(60, 3300) + k)
            elif mode == "ties":
                a = rng.choice([3600, 3600, 86400])
            elif mode == "increasing":
                a = 600 + 137 * k
            elif mode == "future" or (mode == "future-mixed" and k % 2):
                # access times AHEAD of this machine's clock (a file server with another clock, a restored backup): a
                # negative age; still totally ordered, the most recently used entry is the one furthest ahead
                a = -(rng.choice([90, 600, 86400, 86400 * 30]) + 7 * k)
            else:
                a = rng.choice([120, 300, 3600, 86400, 86400 * 40, 86400 * 400]) + rng.choice([0, 0, 1, 2, 0.5])
            ages[p] = a
            if a < 0:
                ctx.count("entries_with_an_access_time_in_the_future")
            target = os.path.join(p, "output.pkl") if p in dirs else p
            # the access time of a zero-size entry is its DIRECTORY's: on a relatime mount every listing of a directory
            # whose atime is not later than its mtime moves the atime to the current time - with a time ahead of the
            # clock that would happen at every scan (the inventory's, then joblib's, in their own walk orders), so such
            # directories get an old modification time (false alarm 'not-lru-prefix' of one case in 2 400 on a loaded machine)
            os.utime(target, (now - a, now - a if p in dirs else min(now - a, now) - 10 ** 6))
        # fractional age limits: one entry is placed 0.45 s past a whole number of seconds A and the age limit is
        # A + 0.9 s (the entry must survive) or A + 0.1 s (it must go); everything else stays >= 60 s away
        frac = None
        real = [p for p in all_dirs if p in dirs]
        if real and rng.random() < 0.25:
            tp = rng.choice(real)
            A = int(ages[tp])
            if A > 60 and all(abs(ages[q] - A) >= 60 for q in all_dirs if q != tp):
                T0 = time.time()
                os.utime(os.path.join(tp, "output.pkl"), (T0 - A - 0.45, T0 - A - 0.45))
                ages[tp] = A + 0.45
                frac = dict(path=tp, A=A, T0=T0, limit=A + rng.choice([0.9, 0.9, 0.1]))
        inv = scan(d)
        if set(inv) != set(all_dirs):
            ctx.inconclusive("inventory-mismatch", dict(inv=sorted(inv), expected=sorted(all_dirs)))
            return
        total = sum(v[0] for v in inv.values())
        m = len(inv)
        bl = rng.choice([None, None, 0, total, total - 1, total // 2, "1K", "0.5K", 10 ** 9])
        if isinstance(bl, int) and bl < 0:
            bl = 0
        if inv and rng.random() < 0.25:
            # exact fit of a random most-recently-used suffix, spelled as a 'K' / 'M' string or an int
            by_recency = sorted(inv.values(), key=lambda v: -v[1])
            fit = sum(v[0] for v in by_recency[:rng.randint(1, len(by_recency))])
            # ... or a string whose value is not a whole number of bytes (fit - 0.4 bytes: the suffix no longer fits; fit + 0.6: it does)
            bl = rng.choice([fit, repr(fit / 1024) + "K", repr(fit / 1024 ** 2) + "M", repr((fit - 0.4) / 1024) + "K", repr((fit + 0.6) / 1024) + "K", repr((fit - 0.4) / 1024 ** 2) + "M"])
            if isinstance(bl, str) and (float(bl[:-1]) * {"K": 1024, "M": 1024 ** 2}[bl[-1]]) % 1:
                ctx.count("fractional_byte_limits_at_an_exact_fit_boundary")
        il = rng.choice([None, None, 0, 1, m - 1, m, m + 1])
        if il is not None and il < 0:
            il = None
        sorted_ages = sorted(set(ages.values()))
        age_choices = [None, None, 0]
        if len(sorted_ages) >= 2:
            j = rng.randrange(len(sorted_ages) - 1)
            lo, hi = sorted_ages[j], sorted_ages[j + 1]
            if hi - lo > 130:
                age_choices.append((lo + hi) / 2)
        age_choices.append(8e10)       # some 2500 years: nothing is that old
        if sorted_ages:
            age_choices.append(sorted_ages[-1] + 86400)
            if sorted_ages[0] > 100:
                age_choices.append(sorted_ages[0] - 65)
        age = rng.choice([x for x in age_choices if x is None or x >= 0])    # a negative age limit is rejected by reduce_size
        if age is not None and age != 0 and any(abs(a - age) < 60 for a in ages.values()):
            age = None
        if frac is not None:
            age = frac["limit"]
        ctx.evaluated()
        t_before = time.time()
        err = None
        try:
            with warnings.catch_warnings():
                warnings.simplefilter("ignore")
                mem.reduce_size(bytes_limit=bl, items_limit=il,
                                age_limit=None if age is None else datetime.timedelta(seconds=age))
        except Exception as e:  # noqa
            err = f"{type(e).__name__}: {e}"
        t_after = time.time()
        if frac is not None:
            if t_after - frac["T0"] > 0.35:
                ctx.count("fractional_age_cases_skipped_slow")   # the entry may have crossed the deadline meanwhile: no verdict
                return
            ctx.count("fractional_age_limit_cases")
        desc = dict(entries=sorted((round(ages[p], 1), inv[p][0]) for p in inv), limits=[bl, il, age])
        if err:
            ctx.violation("reduce_size-raises", f"reduce_size raised {err} on {desc}", desc)
            return
        after = set(scan(d))
        bln = None if bl is None else (int({"K": 1024, "M": 1024 ** 2}[bl[-1]] * float(bl[:-1])) if isinstance(bl, str) else bl)
        # the deadline joblib computed lies in [t_before-age, t_after-age]; entries are >= 60 s away (or age == 0)
        dl = None if age is None else t_after - age
        S, E = after, set(inv) - after
        why = None
        if not S <= set(inv):
            why = "new-entries"
        elif breaks(S, inv, bln, il, dl):
            why = "limit-not-met:" + breaks(S, inv, bln, il, dl)
        elif E and S and max(inv[p][1] for p in E) > min(inv[p][1] for p in S):
            why = "not-lru-prefix"
        elif E:
            mx = max(inv[p][1] for p in E)
            dl2 = None if age is None else t_before - age
            if not any(breaks(S | {e}, inv, bln, il, dl2) for e in E if inv[e][1] == mx):
                why = "not-minimal"
        if E and (bl is not None or il is not None or age is not None):
            ctx.count("stores_with_eviction")
            ctx.sig(desc)
        if why:
            desc["evicted"] = sorted((round(ages[p], 1), inv[p][0]) for p in E)
            ctx.violation(why, f"{why}: store (age_s,size) {desc['entries']} limits(bytes,items,age_s)={desc['limits']} evicted {desc['evicted']}", desc)
            return
        # survivors load without executing; evicted recompute exactly once
        for p, (fn, i, sz) in dirs.items():
            del CALLS[:]
            try:
                with warnings.catch_warnings():
                    warnings.simplefilter("ignore")
                    in_cache = fs[fn].check_call_in_cache(i, sz)
                    v = fs[fn](i, sz)
            except Exception as e:  # noqa
                ctx.violation("entry-unusable-after-reduce", f"{'survivor' if p in S else 'evicted'} entry raises {type(e).__name__}: {e}", desc)
                return
            want = {"blob": b"x", "blob2": b"y", "blob3": b"z", "nested": b"n", "hexnamed": b"h", "hexexact": b"e"}[fn] * sz
            if v != want:
                ctx.violation("wrong-value-after-reduce", f"entry {fn}({i},{sz}) returns {v[:20]!r}[{len(v)}]", desc)
                return
            if p in S:
                ctx.count("survivor_hits_checked")
                if CALLS or not in_cache:
                    ctx.violation("survivor-not-loadable", f"surviving entry {fn}({i},{sz}) executed again ({CALLS}) / check_call_in_cache={in_cache}", desc)
                    return
            else:
                ctx.count("evicted_recomputed_checked")
                if len(CALLS) != 1 or in_cache:
                    ctx.violation("evicted-not-recomputed", f"evicted entry {fn}({i},{sz}): executions {CALLS}, check_call_in_cache={in_cache}", desc)
                    return
        if case["i"] % 400 == 0:
            desc["evicted"] = sorted((round(ages[p], 1), inv[p][0]) for p in E)
            ctx.sample(desc)
        # second round on the SAME Memory object: surviving entries of `blob` are computed again with another size at the same
        # path (MemorizedFunc.call: forced execution), then the store is reduced once more - from what it holds NOW
        again = [p for p, (fn, i, sz) in dirs.items() if p in S and fn == "blob"]
        if case["i"] % 4 == 1 and len(again) >= 2 and not frac:
            try:
                for p in rng.sample(again, rng.randint(1, len(again))):
                    fn, i, sz = dirs[p]
                    GROW[(i, sz)] = rng.choice([0, sz // 3, sz * 4 + 2000, sz + 7000])
                    with warnings.catch_warnings():
                        warnings.simplefilter("ignore")
                        fs[fn].call(i, sz)
                now2 = time.time()
                for k2, p in enumerate(sorted(S)):
                    target = os.path.join(p, "output.pkl") if p in dirs else p
                    os.utime(target, (now2 - 1000 - 97 * k2, now2 - 1000 - 97 * k2 if p in dirs else now2 - 10 ** 6))
                inv2 = scan(d)
                by_recency = sorted(inv2.values(), key=lambda v: -v[1])
                keep = rng.randint(0, len(by_recency))
                bl2 = sum(v[0] for v in by_recency[:keep]) + rng.choice([0, 0, -1, 1])
                bl2 = max(bl2, 0)
                with warnings.catch_warnings():
                    warnings.simplefilter("ignore")
                    mem.reduce_size(bytes_limit=bl2)
                after2 = set(scan(d))
                S2, E2 = after2, set(inv2) - after2
                ctx.count("second_reductions_after_entries_were_rewritten_in_place")
                desc2 = dict(round="second reduce_size on the same Memory after entries were computed again with another size",
                             entries=sorted((round(time.time() - inv2[p][1]), inv2[p][0]) for p in inv2), bytes_limit=bl2,
                             evicted=sorted((round(time.time() - inv2[p][1]), inv2[p][0]) for p in E2))
                why2 = None
                if sum(inv2[p][0] for p in S2) > bl2:
                    why2 = "limit-not-met:bytes"
                elif E2 and S2 and max(inv2[p][1] for p in E2) > min(inv2[p][1] for p in S2):
                    why2 = "not-lru-prefix"
                elif E2:
                    mx = max(inv2[p][1] for p in E2)
                    if not any(sum(inv2[q][0] for q in S2 | {e}) > bl2 for e in E2 if inv2[e][1] == mx):
                        why2 = "not-minimal"
                if why2:
                    ctx.violation(why2 + ":second-round", f"{why2}: {desc2}", desc2)
            finally:
                GROW.clear()
    finally:
        os.environ.pop("TZ", None)
        time.tzset()
        shutil.rmtree(d, ignore_errors=True)
