"""C08 - joblib.hash: deterministic across processes / hash seeds / insertion
orders / string identity, and discriminating by content and type.

Monitor: K interpreter processes with different PYTHONHASHSEED rebuild the same
seeded universe of values (each in its own permuted insertion order, strings
via ''.join) and report digests; the parent compares per value across processes
and checks that digest -> canonical form is injective over the whole universe.
"""

import hashlib
import json
import os
import re
import shutil

from vlib import gen_obj, harness

ID = "C08"
LEVEL = "exploration"
RULE = ("universe = fixed explicit pairs (1/1.0/True, 'a'/b'a', list/tuple, set/frozenset, nested-leaf variants) + seeded "
        "recursive values (depth <= 5; 6 % wide / long / deep ones: strings and bytes up to 70 000, containers up to 1025 members, ints beyond 64 bits, nesting 20, 1-3 MiB payloads repeated in one value) without aliased sub-objects and without NaN in sets; every value is rebuilt in K "
        "interpreter processes (PYTHONHASHSEED 0,1,2,random,...) x 2 insertion-order permutations each, md5 and sha1; "
        "one of the K processes has numpy loaded (joblib.hash then goes through NumpyHasher and must give the same digests); a numpy family (300 values, 4000 in the thorough tier: dtypes, numpy scalars, C / Fortran arrays of 30 dtypes and 10 shapes with seeded content, alone and inside lists / tuples / dicts, next to explicit near-colliding pairs) is hashed with numpy loaded in every process; instances of dict / set / frozenset subclasses, Decimal leaves; "
        "a case is one value; distinct_nontrivial counts distinct canonical forms of values containing at least one "
        "dict/set/frozenset part or belonging to an explicit near-colliding pair")
ASSUMPTIONS = [
    "canonical form (vlib/gen_obj.canon: typed, order-insensitive) defines 'same value'",
    "every occurrence of a sub-object is a fresh object (aliasing is visible to joblib.hash by design and excluded)",
    "dict keys / set members that are == but of different type (1, 1.0, True) never share a container",
    "arrays are 'the same value' when dtype (with byte order), shape, C / Fortran order and element bytes agree (joblib.hash documents that the memory order is part of the hash)",
]
SHARDS = {"quick": 10, "thorough": 14}
FLOORS = {"quick": {"values_compared": 1800, "processes_per_value": 4, "digest_pairs_discriminated": 1200, "values_with_numpy_parts": 250, "processes_hashing_with_numpy_loaded": 25},
          "thorough": {"values_compared": 25000, "processes_per_value": 8, "digest_pairs_discriminated": 22000, "values_with_numpy_parts": 3000, "processes_hashing_with_numpy_loaded": 100}}

HASHSEEDS = ["0", "1", "2", "random", "12345", "4294967295", "random", "7"]

EXPLICIT = [
    ["i", "1"], ["f", "1.0"], ["b", 1], ["i", "0"], ["f", "0.0"], ["b", 0], ["n"],
    ["s", "a"], ["y", "61"], ["s", "1"], ["s", ""], ["y", ""], ["B", "61"], ["B", ""],
    ["L", []], ["T", []], ["S", []], ["F", []], ["D", []],
    ["L", [["i", "1"], ["i", "2"]]], ["T", [["i", "1"], ["i", "2"]]], ["L", [["i", "2"], ["i", "1"]]],
    ["S", [["i", "1"], ["i", "2"]]], ["F", [["i", "1"], ["i", "2"]]],
    ["S", [["s", "a"], ["s", "b"], ["s", "abc"]]], ["F", [["s", "a"], ["s", "b"], ["s", "abc"]]],
    ["F", [["s", "a"], ["s", "b"], ["s", "abc"], ["s", "1"], ["s", "é"], ["y", "61"]]],
    ["D", [[["s", "a"], ["i", "1"]], [["s", "b"], ["i", "2"]]]], ["D", [[["s", "a"], ["i", "2"]], [["s", "b"], ["i", "1"]]]],
    ["D", [[["s", "a"], ["f", "1.0"]], [["s", "b"], ["i", "2"]]]],
    ["D", [[["i", "1"], ["s", "x"]], [["s", "1"], ["s", "x"]]]], ["D", [[["i", "1"], ["s", "x"]], [["y", "31"], ["s", "x"]]]],
    ["D", [[["F", [["i", "1"]]], ["i", "1"]], [["F", [["i", "2"]]], ["i", "2"]], [["F", [["i", "3"]]], ["i", "3"]], [["F", [["i", "1"], ["i", "2"]]], ["i", "4"]]]],
    ["S", [["F", [["i", "1"]]], ["F", [["i", "2"]]], ["F", [["i", "3"]]], ["F", [["i", "1"], ["i", "2"]]]]],
    ["D", [[["T", [["F", [["s", "a"]]]]], ["i", "1"]], [["T", [["F", [["s", "b"]]]]], ["i", "2"]], [["T", [["F", [["s", "c"]]]]], ["i", "3"]]]],
    ["L", [["L", [["L", [["i", "1"]]]]]]], ["L", [["L", [["L", [["f", "1.0"]]]]]]], ["L", [["L", [["L", [["b", 1]]]]]]], ["L", [["L", [["T", [["i", "1"]]]]]]],
    ["D", [[["s", "k"], ["L", [["s", "a"]]]]]], ["D", [[["s", "k"], ["L", [["y", "61"]]]]]], ["D", [[["s", "k"], ["T", [["s", "a"]]]]]],
    ["S", [["i", "1"], ["s", "a"], ["n"], ["y", "61"]]], ["F", [["i", "1"], ["s", "a"], ["n"], ["y", "61"]]],
    ["S", [["T", [["i", "1"], ["s", "a"]]], ["T", [["i", "1"], ["i", "2"]]], ["s", "x"]]],
    # keys that are distinct objects with one and the same digest (every NaN is its own key): only the values tell the items apart
    ["D", [[["f", "nan"], ["i", "1"]], [["f", "nan"], ["i", "2"]]]], ["D", [[["f", "nan"], ["i", "1"]], [["f", "nan"], ["i", "2"]], [["f", "nan"], ["i", "3"]], [["s", "k"], ["i", "0"]]]],
    ["D", [[["T", [["f", "nan"], ["i", "0"]]], ["s", "p"]], [["T", [["f", "nan"], ["i", "0"]]], ["s", "q"]]]],
    ["L", [["D", [[["s", "k"], ["D", [[["f", "nan"], ["i", "1"]], [["f", "nan"], ["i", "2"]]]]]]], ["i", "3"]]],
    # members that form a chain a < b < c in which a and c cannot be compared ((1+0j) == 1, but (1+0j) < 2 raises): whether sorting
    # them raises depends on the order they are met in (F45; found by the thorough sweep with seed 5, minimised)
    ["F", [["T", []], ["T", [["T", [["i", "2"], ["y", "61"], ["f", "2.0"], ["i", "-2"]]], ["i", "2"]]], ["T", [["T", [["c", "1.0", "0.0"]]], ["i", "1"]]],
           ["T", [["T", [["i", "1"], ["n"], ["s", ""], ["i", "-2"]]], ["T", []]]]]],
    ["S", [["T", [["c", "1.0", "0.0"]]], ["T", [["i", "1"], ["i", "0"]]], ["T", [["i", "2"]]]]],
    ["D", [[["T", [["c", "1.0", "0.0"]]], ["s", "v"]], [["T", [["i", "1"], ["i", "0"]]], ["s", "v"]], [["T", [["i", "2"]]], ["s", "v"]]]],
    # tuples holding nan: sorted() never raises on them and never orders them
    ["D", [[["T", [["f", "nan"], ["i", "1"]]], ["i", "1"]], [["T", [["f", "0.5"], ["i", "2"]]], ["i", "2"]], [["T", [["f", "1.5"], ["i", "0"]]], ["i", "3"]]]],
    ["S", [["T", [["f", "nan"], ["i", "1"]]], ["T", [["f", "0.5"], ["i", "2"]]], ["T", [["f", "1.5"], ["i", "0"]]], ["T", [["f", "0.25"], ["i", "7"]]]]],
    ["F", [["T", [["s", "k"], ["f", "nan"]]], ["T", [["s", "k"], ["f", "0.5"]]], ["T", [["s", "k"], ["f", "1.5"]]], ["T", [["s", "j"], ["f", "2.5"]]]]],
    # instances of dict subclasses (pickled through __reduce_ex__: the items reach the pickler as a one-shot iterator) whose keys
    # cannot be sorted, differing in content; next to the plain dict and the empty instance
    ["D", [[["s", "a"], ["i", "1"]], [["i", "2"], ["i", "3"]]], "UDict"], ["D", [[["s", "zz"], ["i", "1"]], [["i", "5"], ["i", "3"]]], "UDict"], ["D", [], "UDict"],
    ["D", [[["s", "a"], ["i", "1"]], [["i", "2"], ["i", "3"]]], "OrderedDict"], ["D", [[["s", "zz"], ["i", "1"]], [["i", "5"], ["i", "3"]]], "OrderedDict"], ["D", [], "OrderedDict"],
    ["D", [[["s", "a"], ["i", "1"]], [["i", "2"], ["i", "3"]]], "defaultdict"], ["D", [[["s", "zz"], ["i", "1"]], [["i", "5"], ["i", "3"]]], "defaultdict"], ["D", [], "defaultdict"],
    ["D", [[["s", "a"], ["i", "1"]], [["i", "2"], ["i", "3"]]]], ["D", [[["s", "a"], ["i", "1"]], [["s", "b"], ["i", "3"]]], "UDict"], ["D", [[["s", "a"], ["i", "1"]], [["s", "b"], ["i", "3"]]]],
    ["D", [[["f", "nan"], ["i", "1"]], [["f", "nan"], ["i", "2"]]], "UDict"], ["D", [[["F", [["i", "1"]]], ["i", "1"]], [["F", [["i", "2"]]], ["i", "2"]], [["F", [["i", "1"], ["i", "2"]]], ["i", "4"]]], "UDict"],
    # instances of set / frozenset subclasses (pickled through __reduce_ex__: the members arrive as a list in iteration order)
    ["S", [["s", "a"], ["s", "b"], ["s", "c"], ["s", "d"], ["s", "e"]], "USet"], ["F", [["s", "a"], ["s", "b"], ["s", "c"], ["s", "d"], ["s", "e"]], "UFrozenSet"],
    ["S", [["i", "1"], ["i", "9"], ["i", "17"], ["i", "25"], ["i", "33"]], "USet"], ["S", [["i", "1"], ["s", "a"], ["n"], ["y", "61"]], "USet"], ["S", [], "USet"], ["F", [], "UFrozenSet"],
    ["S", [["s", "a"], ["s", "b"], ["s", "c"], ["s", "d"], ["s", "e"]]], ["L", [["S", [["F", [["s", "p"], ["s", "q"], ["s", "r"]], "UFrozenSet"], ["s", "x"]]]]],
    # decimals: comparing with a NaN raises InvalidOperation (an ArithmeticError, not a TypeError)
    ["D", [[["d", "NaN"], ["i", "1"]], [["d", "1"], ["i", "2"]], [["d", "2.5"], ["i", "3"]]]], ["S", [["d", "NaN"], ["d", "1"], ["d", "2.5"]]], ["D", [[["d", "1"], ["i", "2"]], [["d", "2.5"], ["i", "3"]]]],
    ["D", [[["T", [["d", "NaN"], ["i", "1"]]], ["i", "1"]], [["T", [["d", "1"], ["i", "1"]]], ["i", "2"]]]], ["L", [["d", "1"], ["d", "1.0"], ["i", "1"]]],
    # keys with one digest (distinct nan objects) whose VALUES cannot be sorted, or are only partially ordered
    ["D", [[["f", "nan"], ["S", [["i", "1"]]]], [["f", "nan"], ["S", [["i", "2"]]]], [["f", "nan"], ["S", [["i", "1"], ["i", "2"]]]]]],
    ["D", [[["f", "nan"], ["D", [[["i", "1"], ["i", "1"]]]]], [["f", "nan"], ["D", [[["i", "2"], ["i", "2"]]]]]]],
    ["D", [[["f", "nan"], ["L", [["i", "1"], ["s", "a"]]]], [["f", "nan"], ["L", [["s", "a"], ["i", "1"]]]], [["f", "nan"], ["n"]]]],
    ["D", [[["f", "nan"], ["F", [["s", "a"]]]], [["f", "nan"], ["F", [["s", "b"]]]], [["f", "nan"], ["F", [["s", "a"], ["s", "b"]]]], [["s", "k"], ["F", []]]]],
    ["D", [[["T", [["f", "nan"]]], ["c", "1.0", "0.0"]], [["T", [["f", "nan"]]], ["i", "1"]], [["T", [["f", "nan"]]], ["i", "2"]]]],
    # the same large payload twice in one value (shared vs distinct equal objects must hash alike)
    ["L", [["Z", "bytes", 1 << 20, 7], ["Z", "bytes", 1 << 20, 7]]],
    ["T", [["Z", "zeros", (1 << 20) + 17, 0], ["i", "1"], ["Z", "zeros", (1 << 20) + 17, 0]]],
    ["D", [[["s", "a"], ["Z", "bytes", 3 << 20, 9]], [["s", "b"], ["Z", "bytes", 3 << 20, 9]]]],
    ["L", [["Z", "str", 70000, 3], ["L", [["Z", "str", 70000, 3]]]]],
    ["L", [["Z", "bytes", 65536, 5], ["Z", "bytes", 65536, 5], ["Z", "bytes", 65537, 5]]],
]


def trailing_leaf_family(tier):
    """values whose serialised form crosses a power-of-two size (64 KiB ... 16 MiB, 32 MiB in the thorough tier) and that
    differ only in what comes AFTER the large payload: a digest computed over blocks must cover the last partial block"""
    out = []
    sizes = [(1 << 16) + 7, (1 << 20) + 4096, (1 << 24) + 4096] + ([(1 << 25) + 11] if tier != "quick" else [])
    for n in sizes:
        big = ["Z", "zeros", n, 0]
        for tail in (["i", "1"], ["i", "2"], ["b", 1], ["f", "1.0"], ["s", "a"], ["y", "61"]):
            out.append(["T", [big, tail]])
        out.append(["L", [big, ["L", [["i", "1"]]]]])
        out.append(["L", [big, ["T", [["i", "1"]]]]])
        out.append(["D", [[["s", "data"], big], [["s", "z"], ["S", [["i", "1"]]]]]])
        out.append(["D", [[["s", "data"], big], [["s", "z"], ["F", [["i", "1"]]]]]])
    return out


NUMPY_EXPLICIT = [
    # dtype objects at different places of one container
    ["T", [["t", "<f4"], ["i", "1"]]], ["T", [["i", "1"], ["t", "<f4"]]], ["L", [["t", "<f4"], ["i", "1"]]], ["L", [["i", "1"], ["t", "<f4"]]],
    ["L", [["t", "<f4"]]], ["L", [["t", "<f4"], ["t", "<f4"]]], ["T", [["t", "<f4"], ["t", "<i4"]]], ["T", [["t", "<i4"], ["t", "<f4"]]],
    ["D", [[["s", "a"], ["t", "<f4"]], [["s", "b"], ["i", "1"]]]], ["D", [[["s", "a"], ["i", "1"]], [["s", "b"], ["t", "<f4"]]]],
    ["t", "<f4"], ["t", ">f4"], ["t", "<i4"], ["t", "<u4"], ["t", [["a", "<i4"], ["b", ">f8"]]], ["t", [["a", "<i4"], ["b", "<f8"]]], ["t", [["a", "<i4"]]], ["t", "<M8[s]"], ["t", "<M8[ms]"],
    # the same structured dtype several times in one value: distinct equal objects in one build, one shared object in another
    ["L", [["t", [["a", "<i4"], ["b", ">f8"]]], ["t", [["a", "<i4"], ["b", ">f8"]]]]], ["T", [["t", [["a", "<i4"]]], ["L", [["t", [["a", "<i4"]]]]], ["t", [["a", "<i4"]]]]],
    ["D", [[["s", "x"], ["t", [["p", "<f8"], ["q", "S3"]]]], [["s", "y"], ["t", [["p", "<f8"], ["q", "S3"]]]]]],
    # numpy scalars next to the Python scalars they are == to
    ["g", "int64", "1"], ["g", "int32", "1"], ["g", "float64", "1"], ["g", "float32", "1"], ["g", "bool_", "True"], ["g", "uint8", "1"], ["g", "complex128", "1"], ["g", "str_", "1"],
    ["L", [["g", "int64", "1"], ["i", "1"]]], ["L", [["i", "1"], ["g", "int64", "1"]]], ["T", [["g", "float64", "1"], ["f", "1.0"]]],
    # arrays: same bytes under another dtype / shape / order, the same array twice (shared or not), arrays in dicts and sets of tuples
    ["N", "<f8", [6], "C", 1], ["N", "<f8", [2, 3], "C", 1], ["N", "<f8", [3, 2], "C", 1], ["N", "<f8", [2, 3], "F", 1], ["N", "<i8", [6], "C", 1], ["N", ">f8", [6], "C", 1],
    ["N", "<f8", [0], "C", 1], ["N", "<f8", [0, 3], "C", 1], ["N", "<f4", [0], "C", 1], ["N", "<f8", [], "C", 1], ["N", "<f8", [1], "C", 1], ["N", "<f8", [1, 1], "C", 1],
    ["N", "u1", [3], "C", 2], ["N", "i1", [3], "C", 2], ["N", "bool", [3], "C", 2], ["N", "S5", [3], "C", 2], ["N", "<U3", [3], "C", 2],
    ["L", [["N", "<f8", [6], "C", 1], ["N", "<f8", [6], "C", 2]]], ["L", [["N", "<f8", [6], "C", 2], ["N", "<f8", [6], "C", 1]]], ["L", [["N", "<f8", [6], "C", 1], ["N", "<f8", [6], "C", 1]]],
    ["T", [["N", "<f8", [6], "C", 1], ["i", "1"]]], ["T", [["i", "1"], ["N", "<f8", [6], "C", 1]]],
    ["D", [[["s", "x"], ["N", "<i4", [3, 4], "F", 3]], [["i", "2"], ["N", "<i4", [3, 4], "C", 3]]]], ["D", [[["s", "x"], ["N", "<i4", [3, 4], "C", 3]], [["i", "2"], ["N", "<i4", [3, 4], "F", 3]]]],
    # identical element bytes (all zero) under other dtypes, shapes, byte orders
    ["N", "u1", [8], "Z", 0], ["N", "i1", [8], "Z", 0], ["N", "bool", [8], "Z", 0], ["N", "S1", [8], "Z", 0], ["N", "<f8", [1], "Z", 0], ["N", "<i8", [1], "Z", 0], ["N", ">i8", [1], "Z", 0],
    ["N", "<u8", [1], "Z", 0], ["N", "<M8[s]", [1], "Z", 0], ["N", "<m8[s]", [1], "Z", 0], ["N", "<c8", [1], "Z", 0], ["N", "S8", [1], "Z", 0], ["N", "<U2", [1], "Z", 0], ["N", "<i4", [2], "Z", 0],
    ["N", "<i4", [2, 1], "Z", 0], ["N", "<i4", [1, 2], "Z", 0], ["N", "<i2", [2, 2], "Z", 0], ["N", "<i2", [4], "Z", 0], ["N", [["a", "<i4"], ["b", "<i4"]], [1], "Z", 0], ["N", [["a", "<i4"], ["c", "<i4"]], [1], "Z", 0],
    ["N", [["a", "<i4"], ["b", ">f8"]], [4], "C", 5], ["N", [["a", "<i4"], ["b", "<f8"]], [4], "C", 5], ["N", "<M8[s]", [4], "C", 6], ["N", "<m8[ms]", [4], "C", 6],
]


def numpy_value(rng):
    """a small container (list / tuple / dict with str or mixed keys) of numpy leaves - dtypes, scalars, C / Fortran arrays of seeded
    content - and plain leaves"""
    from vlib import gen_np

    def leaf():
        r = rng.random()
        if r < 0.2:
            return ["t", rng.choice(["<f4", ">f4", "<i8", "<u2", "S5", "<U3", "<M8[s]", [["a", "<i4"], ["b", ">f8"]], "bool"])]
        if r < 0.35:
            t = rng.choice(["int64", "int8", "uint16", "float64", "float32", "bool_", "complex64"])
            return ["g", t, "True" if t == "bool_" else rng.choice(["0", "1", "2"])]
        if r < 0.8:
            dt = rng.choice([x for x in gen_np.DTYPES if x != "O"])
            return ["N", dt, rng.choice(gen_np.SHAPES), rng.choice(["C", "C", "F"]), rng.randrange(6)]
        return rng.choice(gen_obj.LEAVES)

    def value(depth):
        if depth == 0 or rng.random() < 0.3:
            return leaf()
        k = rng.choice(["L", "T", "D"])
        n = rng.randint(1, 4)
        if k == "D":
            keys = gen_obj.distinct([rng.choice([["s", "k%d" % j], ["i", str(j)], ["T", [["i", str(j)]]]]) for j in range(n)])
            return ["D", [[kk, value(depth - 1)] for kk in keys]]
        return [k, [value(depth - 1) for _ in range(n)]]

    return value(rng.choice([1, 2, 2, 3]))


def digest_families():
    """a container of unsortable members, and the container of its members' DIGESTS (what joblib's fallback pickles in their place)"""
    try:
        from joblib import hash as jh
    except Exception:  # noqa
        return []
    out = []
    for kind, members in (("S", [["i", "1"], ["s", "a"]]), ("F", [["i", "1"], ["s", "a"], ["n"]]), ("S", [["T", [["i", "1"]]], ["s", "x"], ["y", "61"]])):
        out.append(([kind, members], [kind, [["s", jh(gen_obj.build(m))] for m in members]]))
    for pairs in ([[["i", "1"], ["s", "x"]], [["s", "a"], ["s", "y"]]], [[["n"], ["i", "0"]], [["i", "2"], ["i", "1"]], [["s", "k"], ["i", "2"]]]):
        out.append((["D", pairs], ["D", [[["s", jh(gen_obj.build(k))], v] for k, v in pairs]]))
    return out


def universe(tier, seed):
    n = 2000 if tier == "quick" else 30000
    out = [(i, s, True) for i, s in enumerate(EXPLICIT + trailing_leaf_family(tier))]
    for a, b in digest_families():
        tag = "dg:" + harness.h(a, 8)
        out.append((len(out), a, True, tag))
        out.append((len(out), b, True, tag))
    rng = harness.rng_for(seed, ID, "universe")
    i = len(out)
    seen = {gen_obj.canon(u[1]) for u in out}
    while len(out) < n:
        r = rng.random()
        if r < 0.06:
            s = big_value(rng)
        elif r < 0.09:
            s = partial_chain(rng)
        elif r < 0.12:
            # a pair of values differing only in the type of one leaf of an item that also occurs (equal under ==)
            # in another container of the same value: anything remembered per item by equality confuses the two
            s, twin = twin_values(rng)
            if gen_obj.canon(twin) not in seen:
                seen.add(gen_obj.canon(twin))
                out.append((i, twin, True))
                i += 1
        else:
            s = gen_obj.gen_spec(rng, rng.choice([1, 2, 3, 3, 4, 5]), width=rng.choice([3, 4, 6, 12]))
        c = gen_obj.canon(s)
        if c in seen and rng.random() < 0.9:   # keep a few repeats: same value, different spec order
            continue
        seen.add(c)
        out.append((i, s, False))
        i += 1
    # the numpy family comes last: its chunks run in processes that have numpy loaded (joblib then uses NumpyHasher for everything)
    rng = harness.rng_for(seed, ID, "numpy-universe")
    harness.ensure_deps("numpy")
    for s in NUMPY_EXPLICIT:
        out.append((len(out), s, True, "np"))
    m = 300 if tier == "quick" else 4000
    tries = 0
    while m > 0 and tries < 20 * m + 1000:
        tries += 1
        s = numpy_value(rng)
        try:
            c = gen_obj.canon(s)
        except Exception:  # noqa   (e.g. a dtype / layout combination numpy refuses)
            continue
        if c in seen:
            continue
        seen.add(c)
        out.append((len(out), s, False, "np"))
        m -= 1
    return out


EQ_CLASSES = [[["i", "1"], ["f", "1.0"], ["b", 1]], [["i", "0"], ["f", "0.0"], ["b", 0], ["f", "-0.0"]], [["i", "2"], ["f", "2.0"]],
              [["i", "-7"], ["f", "-7.0"]], [["i", str(2 ** 53)], ["f", str(float(2 ** 53))]]]


def twin_values(rng):
    a, b = rng.sample(rng.choice(EQ_CLASSES), 2)

    def item(leaf):
        k = rng_item
        if k == "tuple":
            return ["T", [leaf, ["s", "x"]]]
        if k == "frozenset":
            return ["F", [leaf]]
        if k == "nested":
            return ["T", [["T", [["s", "p"], leaf]], ["n"]]]
        return leaf

    def container(kind, it, filler):
        if kind == "S":
            return ["S", [it, filler]]
        if kind == "F":
            return ["F", [it, filler]]
        if kind == "Dk":
            return ["D", [[it, ["s", "v"]], [filler, ["s", "w"]]]]
        if kind == "Dv":
            return ["D", [[["s", "k"], it], [["i", "5"], filler]]]
        return [kind, [it, filler]]

    rng_item = rng.choice(["tuple", "tuple", "frozenset", "nested", "leaf"])
    fillers = [["n"], ["s", "y"], ["y", "61"], ["T", [["s", "q"]]]]
    f1, f2 = rng.choice(fillers), rng.choice(fillers)
    k1, k2 = rng.choice(["S", "F", "Dk", "S", "Dk", "Dv", "L"]), rng.choice(["S", "F", "Dk", "S", "Dk", "Dv", "T"])
    holder = rng.choice(["L", "T", "D"])

    def whole(x, y):
        c1, c2 = container(k1, item(x), f1), container(k2, item(y), f2)
        if holder == "D":
            return ["D", [[["s", "p"], c1], [["s", "q"], c2]]]
        return [holder, [c1, c2]]

    return whole(a, b), whole(a, a)


def partial_chain(rng):
    """a set / frozenset / dict keyed by tuples forming a chain of comparable neighbours in which two members that are not
    neighbours cannot be compared: X == E across types, E < G, X and G raise TypeError; padded with members comparable
    with every other one, in some cases beyond a hundred members"""
    X, E, G = rng.choice([(["c", "1.0", "0.0"], ["i", "1"], ["i", "2"]), (["c", "1.0", "0.0"], ["f", "1.0"], ["f", "1.5"]), (["c", "0.0", "0.0"], ["i", "0"], ["i", "7"]),
                          (["c", "1.0", "0.0"], ["b", 1], ["i", "3"]), (["c", "2.0", "0.0"], ["i", "2"], ["f", "2.5"])])
    depth = rng.choice([0, 0, 1])

    def wrap(x, tail):
        t = ["T", [x] + tail]
        return ["T", [t, ["i", "0"]]] if depth else t

    members = [wrap(X, []), wrap(E, [rng.choice([["i", "0"], ["n"], ["s", "a"]])]), wrap(G, rng.choice([[], [["s", "z"]]]))]
    pad = rng.choice([0, 0, 1, 3, 30, 97, 98, 140, 300])
    for j in range(pad):
        members.append(wrap(["i", str(100 + j)], [rng.choice([["i", str(j)], ["s", "p%d" % j]])]))
    if rng.random() < 0.3 and not depth:
        members.insert(0, ["T", []])
    kind = rng.choice(["S", "F", "D", "D"])
    if kind == "D":
        return ["D", [[m, ["i", str(rng.randrange(3))]] for m in members]]
    spec = [kind, members]
    return spec if rng.random() < 0.6 or kind == "S" else ["L", [spec, ["D", [[spec, ["i", "1"]]]]]]


def big_value(rng):
    """values above typical size thresholds: long strings / bytes, wide containers, huge ints, deep nesting"""
    k = rng.choice(["longstr", "longbytes", "wideset", "widefrozenset", "widedict", "mixeddict", "hugeint", "deep", "widelist", "bytearray", "settuples"])
    n = rng.choice([17, 33, 65, 130, 257, 1025])
    if k == "longstr":
        return ["s", "".join(rng.choice("abcdefé \n") for _ in range(rng.choice([255, 256, 257, 5000, 70000])))]
    if k == "longbytes":
        return ["y", rng.randbytes(rng.choice([255, 256, 257, 5000, 70000])).hex()]
    if k == "bytearray":
        return ["B", rng.randbytes(rng.choice([1, 255, 256, 5000])).hex()]
    if k == "wideset":
        return ["S", gen_obj.distinct([rng.choice([["i", str(rng.randrange(-n, n))], ["s", "k%d" % rng.randrange(n)]]) for _ in range(n)])]
    if k == "widefrozenset":
        return ["F", gen_obj.distinct([["s", "k%d" % rng.randrange(10 * n)] for _ in range(n)])]
    if k == "settuples":
        return rng.choice(["S", "F"]) and [rng.choice(["S", "F"]), gen_obj.distinct([["T", [["i", str(rng.randrange(9))], ["s", "t%d" % rng.randrange(n)]]] for _ in range(n // 2)])]
    if k == "widedict":
        keys = gen_obj.distinct([["s", "k%d" % rng.randrange(10 * n)] for _ in range(n)])
        return ["D", [[kk, ["i", str(rng.randrange(5))]] for kk in keys]]
    if k == "mixeddict":
        keys = gen_obj.distinct([rng.choice([["s", "k%d" % i], ["i", str(i + 2)], ["y", "%02x" % (i % 256)], ["T", [["i", str(i)]]], ["F", [["i", str(i)]]], ["n"]]) for i in range(n // 4)])
        return ["D", [[kk, ["L", [["s", "v"], ["S", [["i", "1"], ["s", "a"]]]]]] for kk in keys]]
    if k == "hugeint":
        return ["L", [["i", str(rng.choice([2 ** 63 - 1, 2 ** 63, 2 ** 64, -2 ** 64, 2 ** 200 + rng.randrange(9), 10 ** 400]))], ["i", "1"]]]
    if k == "widelist":
        return ["L", [rng.choice(gen_obj.LEAVES) for _ in range(n)]]
    spec = ["S", [["i", "1"], ["s", "leaf"]]]
    for d in range(rng.choice([6, 10, 20])):
        spec = rng.choice([["L", [spec]], ["D", [[["s", "k"], spec]]], ["T", [spec, ["i", str(d)]]]])
    return spec


_UNI = {}


def universe_cached(tier, seed):
    if (tier, seed) not in _UNI:
        _UNI[(tier, seed)] = universe(tier, seed)
    return _UNI[(tier, seed)]


def cases(tier, seed):
    uni = universe_cached(tier, seed)
    size = 100 if tier == "quick" else 400
    first_np = next((k for k, u in enumerate(uni) if u[3:] == ("np",)), len(uni))
    for j in range(0, first_np, size):
        yield dict(chunk=j // size, lo=j, hi=min(j + size, first_np), numpy=False)
    for j in range(first_np, len(uni), size):
        yield dict(chunk=j // size, lo=j, hi=min(j + size, len(uni)), numpy=True)


def nontrivial(spec):
    return any(c in json.dumps(spec) for c in ('"D"', '"S"', '"F"', '"t"', '"N"', '"g"'))


def classify(spec, how):
    txt = json.dumps(spec)
    has_f = '"F"' in txt
    if how == "across-processes" and has_f:
        return "frozenset-iteration-order"
    if how == "insertion-order" and has_f:
        return "partial-order-keys"
    return how


def run_case(case, ctx):
    uni = universe_cached(ctx.tier, ctx.seed)[case["lo"]:case["hi"]]
    K = 4 if ctx.tier == "quick" else 8
    d = harness.mkscratch("vjl-c08-")
    try:
        sf = os.path.join(d, "specs.json")
        with open(sf, "w") as f:
            json.dump([[u[0], u[1]] for u in uni], f)
        results = []
        if case.get("numpy"):
            harness.ensure_deps("numpy")
        for k in range(K):
            of = os.path.join(d, f"out{k}.json")
            # values without numpy parts: the last process has numpy loaded (NumpyHasher instead of Hasher must give the same digests);
            # values with numpy parts: every process has
            with_np = bool(case.get("numpy")) or k == K - 1
            r = harness.run_py([os.path.join(harness.VERIF, "checks", "c08_child.py"), sf, of, str(k), "numpy" if with_np else "plain"],
                               timeout=300, hashseed=HASHSEEDS[k], result_file=of, env_extra={"VERIF_USE_DEPS": "1"} if with_np else None)
            if with_np and r["result"] and not r["result"].get("numpy_loaded"):
                ctx.inconclusive("numpy-not-loaded-in-child", (r["err"] or "")[-300:])
                return
            if with_np:
                ctx.count("processes_hashing_with_numpy_loaded")
            if not r["result"] or not r["result"]["joblib"].startswith(os.path.realpath(harness.REPO)):
                ctx.inconclusive("child-failed", (r["err"] or r["out"])[-500:])
                return
            results.append({row["idx"]: row for row in r["result"]["rows"]})
        for u in uni:
            idx, spec, explicit, tag = u[0], u[1], u[2], (u[3] if len(u) > 3 else "")
            ctx.evaluated()
            if tag == "np":
                ctx.count("values_with_numpy_parts")
            rows = [res[idx] for res in results]
            can = gen_obj.canon(spec)
            if any("err" in r for r in rows):
                errs = sorted({r.get("err", "ok") for r in rows})
                if len(errs) > 1 or "ok" in errs:
                    ctx.violation("hash-raises-sometimes", f"value {can[:200]}: {errs}", dict(spec=spec))
                else:
                    # every value of the universe is made of picklable builtins, decimals and importable classes: joblib.hash
                    # has no reason to refuse it (Memory would reject a call the function accepts)
                    ctx.violation("hash-raises", f"value {can[:200]}: {errs}", dict(spec=spec))
                continue
            ctx.count("values_compared")
            ctx.maxi("processes_per_value", len(rows))
            if explicit or nontrivial(spec):
                ctx.sig(hashlib.sha1(can.encode()).hexdigest()[:12])
            bad = None
            for alg in ("md5", "sha1"):
                if any(r[alg] != r[alg + "_b"] for r in rows):
                    bad = ("insertion-order", alg)
                elif len({r[alg] for r in rows}) > 1:
                    bad = ("across-processes", alg)
            for other in ("md5_spec", "md5_rev"):
                if any(r["md5"] != r[other] for r in rows):
                    bad = ("insertion-order", "md5")
                    rows = [dict(r, md5_b=r[other]) for r in rows]
            if any(r["md5"] != r["md5_again"] for r in rows):
                bad = ("same-object-twice", "md5")
            if any(r["md5"] != r["md5_shared_strings"] for r in rows):
                bad = ("string-identity", "md5")
                rows = [dict(r, md5_b=r["md5_shared_strings"]) for r in rows]
            if json.dumps(spec).count('"s"') + json.dumps(spec).count('"y"') + json.dumps(spec).count('"Z"') >= 2:
                ctx.count("values_with_repeatable_strings")
            if bad:
                ctx.violation(classify(spec, bad[0]),
                              f"{bad[1]} digest of {can[:300]} differs {bad[0]}: "
                              f"{sorted({r[bad[1]] for r in rows} | {r[bad[1] + '_b'] for r in rows if bad[1] + '_b' in r})[:4]}",
                              dict(spec=spec, digests=[[r["md5"], r["md5_b"]] for r in rows], hashseeds=HASHSEEDS[:K]))
                continue
            ch = hashlib.sha1(can.encode()).hexdigest()[:16]
            mark = ""
            if tag.startswith("dg:"):
                mark = "|" + tag
            elif '"t"' in json.dumps(spec):
                # what is left of the value when its dtype leaves are taken out (see finalize)
                rest = re.sub(r"t\((\[.*?\]|[^()\[\]]*)(\|[^)]*)?\)", "", can)
                rest = re.sub(r",+", ",", rest)
                rest = re.sub(r",(?=[\]}])|(?<=[\[{]),", "", rest)
                mark = "|dt:" + hashlib.sha1(rest.encode()).hexdigest()[:12]
            ctx.kv("md5", rows[0]["md5"], ch + "|" + can[:120] + mark)
            ctx.kv("sha1", rows[0]["sha1"], ch + "|" + can[:120] + mark)
            ctx.kv("canon", ch, rows[0]["md5"])
        if case["chunk"] == 0:
            for idx, spec in [(u[0], u[1]) for u in uni[:3] + uni[-2:]]:
                ctx.sample(dict(value=gen_obj.canon(spec)[:200], md5_per_process=[res[idx].get("md5") for res in results]))
    finally:
        shutil.rmtree(d, ignore_errors=True)


def finalize(m, ctx):
    """global all-pairs discrimination: digest -> canonical form injective, and
    canonical form -> digest a function"""
    for alg in ("md5", "sha1"):
        for digest, canons in m["maps"].get(alg, {}).items():
            if len(canons) > 1:
                marks = {c.rsplit("|", 1)[1] if c.count("|") >= 2 else "" for c in canons}
                key = "collision"
                if len(marks) == 1 and next(iter(marks)).startswith("dg:"):
                    key = "collision:members-replaced-by-their-digests"
                elif len(marks) == 1 and next(iter(marks)).startswith("dt:"):
                    key = "collision:numpy-dtype-position"
                ctx.violation(key, f"{alg} digest {digest} shared by distinct values: {[c.split('|')[1] for c in canons[:3]]}",
                              dict(digest=digest, values=canons))
    ncanon = 0
    for ch, digests in m["maps"].get("canon", {}).items():
        ncanon += 1
        if len(digests) > 1:
            ctx.violation("same-value-different-digest", f"value with canon hash {ch} got digests {digests}", dict(digests=digests))
    ctx.count("digest_pairs_discriminated", ncanon)
    m["maps"].clear()
