"""C13 - BinaryZlibFile / BinaryGzipFile behave like a plain byte stream.

Monitor: every operation on the real file object is mirrored on a 30-line
clamping reference stream; produced bytes are decoded by the stdlib.
"""

import gzip
import io
import os
import shutil
import zlib

from vlib import budget, harness
from vlib.models import RefStream, ShortReader

_LB = None
_CB = None
CPU_PER_OP = 3.0  # seconds of this process's CPU time; ordinary operations take < 50 ms


def shard_setup(tier):
    """logical non-termination guards: executed-line budget per operation on
    joblib/compressor.py and a 1 GiB address-space cap (streams are <= 1 MiB)"""
    global _LB, _CB
    _CB = budget.CpuBudget()
    import joblib.compressor as jc
    budget.cap_address_space(1 << 30)
    _LB = budget.LineBudget([jc]).__enter__()


ID = "C13"
LEVEL = "exploration"
RULE = ("a case is (payload size/kind, class zlib|gzip, level 1..9, write chunking, five readers: joblib-written "
        "BytesIO, joblib-written real file, stdlib-written stream, stdlib-written stream followed by trailing bytes, stdlib-written stream behind a raw file object doing short reads) each driven by a seeded sequence of <= 40 "
        "operations read(n)/read()/readinto/readline/tell/seek(whence 0,1,2); distinct_nontrivial counts distinct "
        "(payload, class, level, reader, operation-sequence) tuples in which at least one operation crossed "
        "an 8192-byte decompression block boundary or hit EOF")
ASSUMPTIONS = [
    "the reference stream (vlib/models.py RefStream) is the specification of a read-only binary stream with clamping seeks",
    "zlib.decompress / gzip.decompress are the standard decoders",
    "only seeks whose target is >= 0 are in the domain",
]
SHARDS = {"quick": 12, "thorough": 14}
FLOORS = {"quick": {"ops": 150000, "conclusive": 2000, "write_streams": 4000},
          "thorough": {"ops": 4000000, "conclusive": 50000, "write_streams": 100000}}

SIZES = [0, 1, 100, 8191, 8192, 8193, 16384, 3 * 8192 - 1, 3 * 8192 + 1, 70000]
BIG = 1 << 20


def cases(tier, seed):
    n = 2400 if tier == "quick" else 60000
    for j, (cls, code) in enumerate([("zlib", "i"), ("gzip", "d")] * (1 if tier == "quick" else 4)):
        # one write() of a buffer with items larger than a byte and more than 16 MiB of data
        yield dict(i=10 ** 6 + j, size=(1 << 24) + 8 * (j + 1), kind="zeros" if j % 2 else "lines", cls=cls, level=1 + j % 3, L=4, one_write_as=code)
    for i in range(n):
        rng = harness.rng_for(seed, ID, i)
        size = rng.choice(SIZES) if rng.random() < 0.97 else BIG
        if rng.random() < 0.15:
            size = rng.randint(0, 40000)
        yield dict(i=i, size=size, kind=rng.choice(["random", "zeros", "lines"]),
                   cls=rng.choice(["zlib", "gzip"]), level=rng.randint(1, 9),
                   L=rng.choice([10, 40, 40]))


def payload(rng, size, kind):
    if kind == "zeros":
        return bytes(size)
    if kind == "random":
        return rng.randbytes(size)
    out = bytearray()
    while len(out) < size:
        out += rng.randbytes(rng.choice([0, 1, 3, 20, 80, 300])).replace(b"\n", b"x") + b"\n"
    return bytes(out[:size])


def gen_ops(rng, ref_len, L):
    pts = [0, 1, 8191, 8192, 8193, 16384, ref_len - 1, ref_len, ref_len + 1, ref_len + 5000, ref_len // 2]
    ops = []
    for _ in range(L):
        k = rng.random()
        if k < 0.30:
            ops.append(("read", rng.choice([0, 1, 2, 7, 100, 4096, 8191, 8192, 8193, 20000, rng.randint(0, 9000)])))
        elif k < 0.36:
            ops.append(("read", rng.choice([-1, None, "None"])))      # read(-1), read(), read(None): all mean "to the end"
        elif k < 0.48:
            ops.append(("readinto", rng.choice([0, 1, 100, 8192, 8193, 30000])))
        elif k < 0.58:
            ops.append(("readline", rng.choice([-1, -1, 0, 5, 100, 10000])))
        elif k < 0.66:
            ops.append(("tell",))
        else:
            wh = rng.choice([0, 0, 1, 1, 2])
            if wh == 0:
                ops.append(("seek", max(0, rng.choice(pts + [rng.randint(0, ref_len + 10)])), 0))
            elif wh == 1:
                ops.append(("seekrel", rng.choice([0, 1, -1, -7, 100, -100, 8192, -8192, 8193, -8193, 50000, -50000])))
            else:
                ops.append(("seek", -rng.choice([0, 0, 1, 5, 8192, 8193, ref_len, ref_len // 2]) if rng.random() < 0.8
                            else rng.choice([1, 100]), 2))
    return ops


def run_case(case, ctx):
    from joblib.compressor import BinaryGzipFile, BinaryZlibFile

    rng = harness.rng_for(ctx.seed, ID, "run", case["i"])
    data = payload(rng, case["size"], case["kind"])
    Cls = BinaryZlibFile if case["cls"] == "zlib" else BinaryGzipFile
    decode = zlib.decompress if case["cls"] == "zlib" else gzip.decompress
    ctx.evaluated()

    # ---- write side: arbitrary chunking, through bytes and memoryview
    def chunks():
        pos = 0
        while pos < len(data):
            n = rng.choice([1, 2, 100, 4096, 8191, 8192, 8193, 65536, len(data)])
            yield data[pos:pos + n]
            pos += n

    tmpdir = harness.mkscratch("vjl-c13-")
    try:
        path = os.path.join(tmpdir, "f.bin")
        produced = {}
        for target in ("bytesio", "path"):
            raw = io.BytesIO()
            f = Cls(raw if target == "bytesio" else path, "wb", compresslevel=case["level"])
            total = 0
            import array
            for c in ([data] if case.get("one_write_as") else chunks()):
                nbytes = len(c)
                k = rng.random()
                is_array = False
                if case.get("one_write_as"):
                    a = array.array(case["one_write_as"])
                    a.frombytes(c)
                    c, is_array = a, True
                    ctx.count("single_writes_of_large_multibyte_item_buffers")
                elif k < 0.3:
                    c = memoryview(c)
                elif k < 0.4:
                    c = bytearray(c)
                elif k < 0.5 and nbytes % 4 == 0 and nbytes:
                    a = array.array("i" if nbytes % 8 else "d")
                    a.frombytes(c)
                    c, is_array = (a if rng.random() < 0.5 else memoryview(a)), True
                    ctx.count("writes_of_multibyte_item_buffers")
                reused = None
                if type(c) is bytearray or (type(c) is bytes and k >= 0.5 and k < 0.6 and nbytes):
                    # the caller's buffer is its own: a copy loop reuses ONE buffer object and overwrites it right after write()
                    # has returned (while (n := src.readinto(buf)): dst.write(buf[:n]) ...)
                    reused = c = bytearray(c)
                    ctx.count("writes_from_a_buffer_the_caller_overwrites_afterwards")
                r = f.write(c)
                if reused is not None:
                    reused[:] = b"\xee" * len(reused)
                total += nbytes
                if r != nbytes or f.tell() != total:
                    ctx.violation("write:count-or-tell", f"write returned {r} for {nbytes} bytes, tell={f.tell()} total={total}",
                                  dict(case=case))
            f.close()
            if target == "path":
                with open(path, "rb") as fh:
                    comp = fh.read()
            else:
                comp = raw.getvalue()
            produced[target] = comp
            ctx.count("write_streams")
            try:
                back = decode(comp)
            except Exception as e:  # noqa
                back = e
            if back != data:
                ctx.violation("write:stdlib-decode",
                              f"{case['cls']} level {case['level']} {target}: stdlib decoder gives "
                              f"{type(back).__name__} len {len(back) if isinstance(back, bytes) else back!r} for payload len {len(data)}",
                              dict(case=case))
        # ---- read side
        stdlib_comp = (zlib.compress(data, case["level"]) if case["cls"] == "zlib"
                       else gzip.compress(data, case["level"]))
        readers = [("joblib-bytesio", lambda: Cls(io.BytesIO(produced["bytesio"]), "rb")),
                   ("joblib-path", lambda: Cls(path, "rb")),
                   ("stdlib-bytesio", lambda: Cls(io.BytesIO(stdlib_comp), "rb")),
                   # an underlying raw stream that delivers at most k bytes per read
                   ("stdlib-short-reads", lambda: Cls(ShortReader(stdlib_comp + rng.choice([b"", b"", b"tail"]), max(rng.choice([1, 7, 4096, 8191]), len(stdlib_comp) // 5000 + 1)), "rb")),
                   # data after the end-of-stream marker is not part of the stream
                   ("stdlib-bytesio+trailing-bytes", lambda: Cls(io.BytesIO(stdlib_comp + rng.choice([b"\x00", b"junk", bytes(9000)])), "rb"))]
        for rname, opener in readers:
            ops = gen_ops(rng, len(data), case["L"])
            f = opener()
            ref = RefStream(data)
            nontrivial = False
            trace = []
            for op in ops:
                before = ref.pos
                if op[0] == "readline":
                    # BufferedIOBase.readline reads byte by byte: bound the work
                    nxt = data.find(b"\n", ref.pos)
                    dist = (len(data) if nxt < 0 else nxt + 1) - ref.pos
                    if dist > 3000 and (op[1] is None or op[1] < 0 or op[1] > 3000):
                        op = ("readline", 300)
                if op[0] in ("seek", "seekrel"):
                    off, wh = (op[1], op[2]) if op[0] == "seek" else (op[1], 1)
                    if ref.target(off, wh) < 0:
                        ctx.count("ops_skipped_negative_target")
                        continue
                try:
                    _LB.arm(200000 + 60 * len(data))
                    _CB.arm(CPU_PER_OP)
                    if op[0] == "read":
                        got = f.read() if op[1] is None else (f.read(None) if op[1] == "None" else f.read(op[1]))
                        exp = ref.read(None if op[1] == "None" else op[1])
                    elif op[0] == "readinto":
                        b1, b2 = bytearray(op[1]), bytearray(op[1])
                        got = (f.readinto(b1), bytes(b1))
                        exp = (ref.readinto(b2), bytes(b2))
                    elif op[0] == "readline":
                        got, exp = f.readline(op[1]), ref.readline(op[1])
                    elif op[0] == "tell":
                        got, exp = f.tell(), ref.tell()
                    else:
                        got, exp = f.seek(off, wh), ref.seek(off, wh)
                    gpos = f.tell()
                except (Exception, budget.StepBudgetExceeded, budget.CpuBudgetExceeded) as e:  # noqa
                    got, gpos, exp = f"{type(e).__name__}: {e}", None, "<no exception>"
                finally:
                    _CB.disarm()
                    ctx.maxi("max_lines_in_one_op", _LB.disarm())
                ctx.count("ops")
                trace.append(list(op))
                if before // 8192 != ref.pos // 8192 or ref.pos == len(data):
                    nontrivial = True
                if got != exp or gpos != ref.pos:
                    def short(x):
                        if isinstance(x, bytes):
                            return f"bytes[{len(x)}] {x[:12]!r}"
                        if isinstance(x, tuple):
                            return (x[0], f"bytes[{len(x[1])}] {x[1][:12]!r}")
                        return x
                    ctx.violation(
                        f"read-op:{op[0]}" + (":nontermination" if isinstance(got, str) and got.startswith(("StepBudget", "CpuBudget", "MemoryError")) else ""),
                        f"{case['cls']} reader {rname} payload {case['kind']}[{len(data)}] after ops {trace[-6:]}: "
                        f"got {short(got)} pos {gpos}, reference {short(exp)} pos {ref.pos}",
                        dict(case=case, reader=rname, ops=trace))
                    break
            try:
                f.close()
            except Exception:  # noqa
                pass
            if nontrivial:
                ctx.sig((case["size"], case["kind"], case["cls"], case["level"], rname, trace))
        if case["i"] % 97 == 0:
            ctx.sample(dict(payload=f"{case['kind']}[{len(data)}]", cls=case["cls"], level=case["level"],
                            last_reader_ops=trace[:12]))
    finally:
        shutil.rmtree(tmpdir, ignore_errors=True)
