"""C14 - truncated or over-long files: load terminates and either raises or
returns exactly the original object; Memory recomputes on a damaged entry.

Termination is decided on logical resources (executed lines in joblib's
persistence modules, this process's CPU time, address space), never on a wall
clock.
"""

import atexit
import io
import os
import shutil
import time
import warnings

from vlib import budget, gen_obj, harness

ID = "C14"
LEVEL = "fault_enumeration"
NEEDS_DEPS = ["numpy"]
RULE = ("a case is one valid joblib file (object from the C03 generator, sometimes with numpy arrays, any compressor, "
        "protocol 2-5) x its damaged variants: every strict prefix for files <= 4 KiB (exhaustive), boundary-biased "
        "prefixes otherwise (0, 1, header, +-1 around 8192*k, last 9 bytes), zlib / gzip files built so that their length modulo 8192 is 0, 1..9, 12, 8190, 8191, loads through a raw stream delivering at most 1 / 13 / 4096 / 8191 bytes per read, and suffixes {1 byte, 4 junk bytes, 8 KiB "
        "junk, a second copy of the same stream, a different valid stream}, each damaged file also loaded from a path on disk with mmap_mode None / 'r' / 'c' / 'r+' (always for uncompressed files, a third of the others); plus Memory entries (called directly or through call_and_shelve(...).get()) whose output.pkl or metadata.json is "
        "damaged the same ways; distinct_nontrivial counts distinct (file digest, damage) loads"
        " The cached function's argument is drawn from ints, dicts, sets, strings with braces / % directives / newlines, long and nested values; the Memory is verbose in two cases out of five.")
ASSUMPTIONS = [
    "call_and_shelve(...).get() on an entry whose output.pkl is damaged may raise (a reference cannot recompute) but must not return another value; with a damaged metadata.json it must still return the value",
    "budgets per load: executed lines in joblib/{compressor,numpy_pickle,numpy_pickle_utils,numpy_pickle_compat}.py "
    "<= 20000 + 200*len(file); CPU time <= max(5 s, 1000 x the undamaged load); address space <= 2 GiB - a MemoryError "
    "while loading a file of at most ~1 MiB is resource exhaustion, not a clean failure",
    "a load that returns must return an object iso to the original (value + aliasing)",
    "warnings are allowed; only exceptions and values are judged",
]
SHARDS = {"quick": 12, "thorough": 14}
FLOORS = {"quick": {"aligned_files": 30, "short_read_loads": 1000, "path_loads_with_mmap_mode": 3000, "damaged_loads": 15000, "suffix_loads": 1000, "memory_damaged_calls": 150, "files": 150, "calls_on_a_valid_entry_that_cannot_be_loaded_any_more": 30},
          "thorough": {"aligned_files": 60, "short_read_loads": 20000, "path_loads_with_mmap_mode": 60000, "damaged_loads": 300000, "suffix_loads": 20000, "memory_damaged_calls": 3000, "files": 3000}}
EXHAUSTIVE = {"quick": False, "thorough": False}

_B = {}
EXEC = []


WRAP = [False]


def cached_fn(x, n):
    EXEC.append((x, n))
    out = {"x": x, "payload": "p" * n, "list": [x, n]}
    if WRAP[0]:
        from vlib.c14_helper import Flaky
        out["flaky"] = Flaky(n)       # a part of the RESULT whose pickling can be made to fail
    return out


def cached_lib(kind, x):
    EXEC.append((kind, x))
    from vlib import c14_helper
    return c14_helper.build(kind, x)


def run_unloadable(case, ctx):
    """a VALID entry that the calling process cannot load any more: the class of the stored result was renamed in the helper
    library (AttributeError from the unpickler) or its constructor changed (TypeError) while the cached function's own source
    is the same - like a damaged entry, it has to be recomputed, not raised"""
    from joblib import Memory
    from vlib import c14_helper as lib
    rng = harness.rng_for(ctx.seed, ID, "unloadable", case["i"])
    d = harness.mkscratch("vjl-c14u-")
    kind = ["report", "pair"][case["i"] % 2]
    try:
        with warnings.catch_warnings():
            warnings.simplefilter("ignore")
            mem = Memory(d, verbose=rng.choice([0, 0, 11]), compress=rng.choice([False, True]))
            f = mem.cache(cached_lib)
        x = rng.randrange(1000)
        f(kind, x)
        ctx.evaluated()
        # the library is 'upgraded'
        if kind == "report":
            lib.ReportB = type("ReportB", (lib.ReportA,), {})
            lib.ReportB.__module__ = lib.__name__
            saved = lib.ReportA
            del lib.ReportA
            lib.STATE["cls"] = "ReportB"
        else:
            orig_init = lib.Pair.__init__
            lib.STATE["pair_args"] = 1          # what was stored holds two constructor arguments ...

            def init1(self, a):                 # ... the class now takes one
                self.a, self.b = a, "b"
            lib.Pair.__init__ = init1
        try:
            del EXEC[:]
            for attempt in (1, 2):
                via_shelve = rng.random() < 0.3
                try:
                    with warnings.catch_warnings():
                        warnings.simplefilter("ignore")
                        got = f(kind, x)
                    err = None
                except Exception as e:  # noqa
                    got, err = None, f"{type(e).__name__}: {str(e)[:160]}"
                ctx.count("calls_on_a_valid_entry_that_cannot_be_loaded_any_more")
                desc = dict(kind=kind, attempt=attempt, change="class renamed" if kind == "report" else "constructor takes fewer arguments")
                if err:
                    ctx.violation(f"raises:memory+valid-entry-unloadable:{err.split(':')[0]}", f"cached call on an entry whose stored object cannot be rebuilt ({desc['change']}) -> {err}", desc)
                    return
                want = lib.build(kind, x)
                if got != want or type(got).__name__ != type(want).__name__:
                    ctx.violation("wrong-value:memory+valid-entry-unloadable", f"cached call returned {got!r}, expected a {type(want).__name__}", desc)
                    return
            if len(EXEC) != 1:
                ctx.violation("recomputed-twice:memory+valid-entry-unloadable", f"the function ran {len(EXEC)}x over two calls after the entry became unloadable (expected once: the recomputed entry is stored)", dict(kind=kind))
            ctx.sig(("unloadable", kind, x % 7))
        finally:
            if kind == "report":
                lib.ReportA = saved
                lib.STATE["cls"] = "ReportA"
            else:
                lib.Pair.__init__ = orig_init
                lib.STATE["pair_args"] = 2
    finally:
        shutil.rmtree(d, ignore_errors=True)


def shard_setup(tier):
    import joblib.compressor as jc
    import joblib.numpy_pickle as jn
    import joblib.numpy_pickle_compat as jcompat
    import joblib.numpy_pickle_utils as ju
    budget.cap_address_space(2 << 30)
    _B["cpu"] = budget.CpuBudget()
    _B["lb"] = budget.LineBudget([jc, jn, ju, jcompat]).__enter__()


def cases(tier, seed):
    n = 260 if tier == "quick" else 5200
    for i in range(n):
        yield dict(i=i, kind="file")
    m = 60 if tier == "quick" else 1200
    for i in range(m):
        yield dict(i=i, kind="memory")
    for i in range(24 if tier == "quick" else 240):
        yield dict(i=i, kind="unloadable")
    # compressed files whose length sits at chosen residues modulo the 8192-byte read block (the checksum trailer alone
    # in the last block, the stream ending exactly on a block boundary, ...)
    k = 0
    for method in ("zlib", "gzip"):
        for residue in (0, 1, 2, 3, 4, 5, 7, 8, 9, 12, 8190, 8191):
            for blocks in ((1, 3) if tier == "quick" else (1, 2, 3, 9)):
                yield dict(i=k, kind="aligned", method=method, residue=residue, blocks=blocks)
                k += 1


def gen_file(rng):
    import joblib
    import numpy as np
    r = rng.random()
    if r < 0.12:
        spec = gen_obj.gen_big(rng, 70000 if rng.random() < 0.8 else (1 << 20) + 1)
        obj = gen_obj.build(spec)
        label = f"big:{spec[1]}[{spec[2]}]"
    else:
        spec = gen_obj.gen_spec(rng, rng.choice([1, 2, 3, 4]), objects=True, width=3)
        if rng.random() < 0.3:
            s2 = gen_obj.add_aliases(spec, rng)
            if gen_obj.refs_valid(s2):
                spec = s2
        obj = gen_obj.build(spec)
        label = gen_obj.canon(spec)[:160] if "R" not in str(spec) else "aliased:" + str(spec)[:160]
    if r > 0.7:
        arr = rng.choice([np.arange(20, dtype="<i4"), np.arange(6.0).reshape(2, 3), np.zeros(3000, dtype="u1"),
                          np.array(["x", None], dtype=object), np.asfortranarray(np.arange(12.0).reshape(3, 4))])
        obj = [obj, arr, {"k": arr}]
        label = "arrays+" + label
    compress = rng.choice([0, 0, 1, 3, 9, "zlib", "gzip", "bz2", "lzma", "xz", ("zlib", 1), ("gzip", 9), ("bz2", 1), ("xz", 1)])
    protocol = rng.choice([2, 3, 4, 5, None])
    bio = io.BytesIO()
    joblib.dump(obj, bio, compress=compress, protocol=protocol)
    return obj, bio.getvalue(), dict(object=label, compress=compress, protocol=protocol)


def guarded_load(raw, cpu_s, desc=None, short=None, via=None):
    """('ok', obj) | ('exc', text) | ('exhausted', text); via = ('path', mmap_mode) loads the bytes from a file on disk"""
    import joblib
    lb, cpu = _B["lb"], _B["cpu"]
    if via is not None:
        if "dir" not in _B:
            _B["dir"] = harness.mkscratch("vjl-c14f-")
            atexit.register(shutil.rmtree, _B["dir"], True)
        _B["n"] = _B.get("n", 0) + 1
        fname = os.path.join(_B["dir"], f"f{_B['n'] % 8}.pkl")   # a few names in turn: an earlier result may still map its file
        with open(fname, "wb") as fh:
            fh.write(raw)
    lb.arm(20000 + 200 * len(raw) * (1 if short is None else max(1, 64 // short)))
    cpu.arm(cpu_s)
    try:
        with warnings.catch_warnings():
            warnings.simplefilter("ignore")
            if via is not None:
                return "ok", joblib.load(fname, mmap_mode=via[1])
            return "ok", joblib.load(io.BytesIO(raw) if short is None else ShortReader(raw, short))
    except MemoryError as e:
        return "exhausted", f"MemoryError under a 2 GiB cap: {e}"
    except budget.StepBudgetExceeded as e:
        return "exhausted", f"line budget exceeded at {e}"
    except budget.CpuBudgetExceeded as e:
        return "exhausted", f"CPU budget {cpu_s:.1f}s exceeded {e}"
    except Exception as e:  # noqa
        return "exc", f"{type(e).__name__}: {str(e)[:120]}"
    finally:
        cpu.disarm()
        lb.disarm()


def demap(x):
    """a load with a memory-map mode hands arrays back as np.memmap: the same values count as the same object.  Arrays
    only occur in the [obj, arr, {"k": arr}] shape made by gen_file; nothing else is rebuilt (aliasing inside obj stays)"""
    import numpy as np
    if type(x) is list and len(x) == 3 and isinstance(x[1], np.memmap) and type(x[2]) is dict:
        return [x[0], np.array(x[1]), {k: (np.array(v) if isinstance(v, np.memmap) else v) for k, v in x[2].items()}]
    return x


def method_of(raw):
    for name, prefix in (("gzip", b"\x1f\x8b"), ("bz2", b"BZ"), ("xz", b"\xfd7zXZ"), ("lzma", b"\x5d\x00"), ("zlib", b"\x78")):
        if raw.startswith(prefix):
            return name
    return "raw"


class ShortReader(io.RawIOBase):
    """a legal raw stream that returns at most k bytes per read()"""

    def __init__(self, data, k):
        self.b = io.BytesIO(data)
        self.k = k

    def readable(self):
        return True

    def seekable(self):
        return True

    def read(self, n=-1):
        if n is None or n < 0:
            return self.b.read()
        return self.b.read(min(n, self.k))

    def readinto(self, buf):
        d = self.b.read(min(len(buf), self.k))
        buf[:len(d)] = d
        return len(d)

    def seek(self, off, whence=0):
        return self.b.seek(off, whence)

    def tell(self):
        return self.b.tell()


def aligned_file(rng, method, residue, blocks):
    """a valid file of exactly blocks*8192 + residue bytes (mod 8192) holding one incompressible bytes object"""
    import joblib
    target = blocks * 8192 + residue
    n = max(target - 60, 1)
    best = None
    for _ in range(40):
        obj = rng.randbytes(n)
        bio = io.BytesIO()
        joblib.dump(obj, bio, compress=(method, 1))
        L = len(bio.getvalue())
        if L % 8192 == residue % 8192 and L // 8192 >= blocks - 1:
            return obj, bio.getvalue()
        diff = target - L
        if diff == 0:
            return obj, bio.getvalue()
        n = max(1, n + diff)
        best = (obj, bio.getvalue())
    return None


def run_case(case, ctx):
    if case["kind"] == "unloadable":
        return run_unloadable(case, ctx)
    if case["kind"] == "memory":
        return run_memory(case, ctx)
    if case["kind"] == "aligned":
        rng = harness.rng_for(ctx.seed, ID, "aligned", case["i"])
        made = aligned_file(rng, case["method"], case["residue"], case["blocks"])
        if made is None:
            ctx.count("aligned_files_not_hit")
            return
        obj, raw = made
        other = gen_file(rng)[1]
        desc = dict(object=f"bytes[{len(obj)}]", compress=(case["method"], 1), protocol=None, aligned=dict(len=len(raw), mod8192=len(raw) % 8192))
        ctx.count("aligned_files")
    else:
        rng = harness.rng_for(ctx.seed, ID, "file", case["i"])
        obj, raw, desc = gen_file(rng)
        other = gen_file(rng)[1]
    n = len(raw)
    t0 = time.process_time()
    st, back = guarded_load(raw, 60)
    base = max(time.process_time() - t0, 1e-4)
    ctx.evaluated()
    if st != "ok" or gen_obj.iso(obj, back):
        ctx.inconclusive("undamaged-load-failed", dict(desc=desc, st=st, info=str(back)[:200]))
        return
    ctx.count("files")
    ctx.maxi("max_baseline_cpu_ms", int(base * 1000))
    cpu_s = max(5.0, 1000 * base)
    meth = method_of(raw)
    desc["method"], desc["len"] = meth, n
    if n <= 4096:
        cuts = list(range(n))
        ctx.count("files_truncated_exhaustively")
    else:
        cuts = {0, 1, 2, 3, 10, 11, 12, n // 2, n - 1}
        cuts.update(range(max(0, n - 9), n))
        for k in range(1, n // 8192 + 1):
            cuts.update((8192 * k - 1, 8192 * k, 8192 * k + 1))
        for _ in range(30):
            cuts.add(rng.randrange(n))
        cuts = sorted(c for c in cuts if 0 <= c < n)
    reported = set()

    def judge(kind, damage, data, short=None, via=None):
        ctx.evaluated()
        st, res = guarded_load(data, cpu_s, short=short, via=via)
        if short is not None:
            ctx.count("short_read_loads")
        if via is not None:
            ctx.count("path_loads")
            if via[1]:
                ctx.count("path_loads_with_mmap_mode")
            kind = f"{kind}-path-mmap_mode={via[1]}"
        ctx.count("damaged_loads")
        ctx.sig((harness.h(raw.hex()[:4000] + str(n), 10), kind, damage))
        key = None
        if st == "exhausted":
            key = f"nontermination:{meth}+{kind}"
            what = f"load of a {meth} file ({n} bytes, {desc['object'][:80]}) {kind} {damage}: {res}"
        elif st == "ok":
            diff = gen_obj.iso(obj, demap(res) if via is not None and via[1] else res)
            ctx.count("damaged_loads_returning_original")
            if diff:
                key = f"wrong-object:{meth}+{kind}"
                what = f"load of a {meth} file ({n} bytes) {kind} {damage} returned a different object: {diff}"
        else:
            ctx.count("damaged_loads_raising")
            ctx.add("exception_types", res.split(":")[0])
        if key and key not in reported:
            reported.add(key)
            ctx.violation(key, what, dict(desc, kind=kind, damage=damage))

    # the same damage read from a file on disk, with and without a memory-map mode (always for uncompressed files, where the
    # mode changes how the file is read; a third of the others)
    p_path = 1.0 if meth == "raw" else 0.34

    def via():
        return ("path", rng.choice([None, "r", "r", "c", "r+"])) if rng.random() < p_path else None

    for c in cuts:
        judge("truncated", c, raw[:c])
        v = via()
        if v:
            judge("truncated", c, raw[:c], via=v)
    sufs = {"1-byte": b"\x00", "4-junk": b"junk", "8k-junk": rng.randbytes(8192), "same-stream-again": raw, "other-valid-stream": other,
            "1-byte-ff": b"\xff"}
    for name, suf in sufs.items():
        judge("extended", name, raw + suf)
        ctx.count("suffix_loads")
        v = via()
        if v:
            judge("extended", name, raw + suf, via=v)
    # the same through a stream that delivers at most k bytes per read (legal for a raw stream)
    if meth != "raw" or rng.random() < 0.3:
        for k in ([1, 13, 8191] if n <= 30000 else [4096, 8191]):
            judge("undamaged-short-reads", f"k={k}", raw, short=k)
            judge("extended-short-reads", f"k={k}+4-junk", raw + b"junk", short=k)
            if n > 8:
                judge("truncated-short-reads", f"k={k},cut={n - 3}", raw[:n - 3], short=k)
    if case["i"] % 60 == 0 or case["kind"] == "aligned" and case["i"] % 11 == 0:
        ctx.sample(dict(desc, truncations=len(cuts), suffixes=sorted(sufs)))


def run_memory(case, ctx):
    from joblib import Memory
    rng = harness.rng_for(ctx.seed, ID, "mem", case["i"])
    d = harness.mkscratch("vjl-c14-")
    try:
        compress = rng.choice([False, True, 1, 9])
        with warnings.catch_warnings():
            warnings.simplefilter("ignore")
            mmap_mode = rng.choice([None, None, "r", "c"])
            mem = Memory(d, verbose=rng.choice([0, 0, 0, 1, 11]), compress=compress, mmap_mode=mmap_mode)
            f = mem.cache(cached_fn)
        # the argument is echoed in the messages joblib writes about the damaged entry (warnings, verbose logging): text with format
        # directives, containers whose repr has braces, very long and multi-line values must not matter
        x = rng.choice([rng.randrange(100), rng.randrange(100), {"alpha": 0.5, "k": [1, 2]}, {}, {1, 2, 3}, "{name}.csv", "a}b{", "100%s %d %(x)s", "{0} {} {!r}",
                        "line1\nline2\\", "x" * 3000, ("t", {"n": None}), None, b"{bytes}", [{"deep": {"er": "{}"}}], frozenset({"{"}), 1.5, "é{ü}"])
        flaky = mmap_mode is not None and rng.random() < 0.5
        if flaky:
            # the recomputed result cannot be STORED (its pickling fails from now on): the damaged file stays where it is, and
            # with mmap_mode joblib reads a fresh result back from the store
            from vlib.c14_helper import Flaky
            x = rng.randrange(100)
            ctx.count("memory_entries_whose_recomputed_result_cannot_be_stored")
        WRAP[0] = flaky
        if not isinstance(x, int):
            ctx.count("memory_entries_called_with_a_non_trivial_argument")
        n = rng.choice([0, 10, 5000, 20000])
        want = cached_fn(x, n)
        f(x, n)
        path = os.path.join(mem.store_backend.location, f.func_id, f._get_args_id(x, n), "output.pkl")
        raw = open(path, "rb").read()
        L = len(raw)
        damages = [("truncated", c) for c in sorted({0, 1, L // 2, L - 1, L - 4, rng.randrange(L), rng.randrange(L)}) if 0 <= c < L]
        damages += [("extended", s) for s in (b"\x00", b"junk", raw, rng.randbytes(8192))]
        # the entry's other file, metadata.json, damaged the same way (strict prefixes; extra bytes: NUL, ASCII, valid and invalid UTF-8,
        # a second document, itself)
        mpath = os.path.join(os.path.dirname(path), "metadata.json")
        mraw = open(mpath, "rb").read()
        ML = len(mraw)
        damages += [("meta-truncated", c) for c in sorted({0, 1, ML // 2, ML - 1, rng.randrange(ML)}) if 0 <= c < ML]
        damages += [("meta-extended", s) for s in (b"\x00", b"junk", b"\xff", b"\xe4\xb8", "\u00e9".encode(), b'{"a": 1}', mraw, b"garbage \xfe\xff garbage")]
        for kind, dmg in damages:
            target, traw = (mpath, mraw) if kind.startswith("meta-") else (path, raw)
            data = traw[:dmg] if kind.endswith("truncated") else traw + dmg
            with open(target, "wb") as fh:
                fh.write(data)
            via_shelve = rng.random() < 0.4
            del EXEC[:]
            ctx.evaluated()
            lb, cpu = _B["lb"], _B["cpu"]
            lb.arm(40000 + 400 * len(data))
            cpu.arm(10.0)
            try:
                if flaky:
                    Flaky.FAIL[0] = True
                    via_shelve = False
                with warnings.catch_warnings():
                    warnings.simplefilter("ignore")
                    got = f.call_and_shelve(x, n).get() if via_shelve else f(x, n)
                err = None
            except (Exception, budget.StepBudgetExceeded, budget.CpuBudgetExceeded) as e:  # noqa
                got, err = None, f"{type(e).__name__}: {str(e)[:150]}"
            finally:
                cpu.disarm()
                lb.disarm()
                if flaky:
                    Flaky.FAIL[0] = False
            ctx.count("memory_damaged_calls")
            if kind.startswith("meta-"):
                ctx.count("memory_damaged_metadata_calls")
            label = dmg if kind.endswith("truncated") else f"+{len(dmg)}B"
            ctx.sig(("memory", compress, mmap_mode, n, kind, label))
            if err and via_shelve and not kind.startswith("meta-") and not err.startswith(("StepBudget", "CpuBudget", "MemoryError")):
                # a reference cannot recompute: reading a damaged result through it may raise (never return something else)
                ctx.count("shelved_reference_to_damaged_result_raised")
                err = None
                got = want
            if err:
                exhausted = err.startswith(("StepBudget", "CpuBudget", "MemoryError"))
                ctx.violation(("nontermination:" if exhausted else "raises:") + f"memory+{kind}",
                              f"{'call_and_shelve(...).get()' if via_shelve else 'cached call'} on an entry whose {'metadata.json' if kind.startswith('meta-') else 'output.pkl'} is {kind} ({label}; compress={compress}, {L} bytes) -> {err}",
                              dict(compress=compress, mmap_mode=mmap_mode, kind=kind, damage=label, n=n))
                break
            if got != want:
                ctx.violation(f"wrong-value:memory+{kind}", f"cached call on damaged entry returned {str(got)[:80]}", dict(compress=compress, mmap_mode=mmap_mode, kind=kind, damage=label))
                break
            ctx.count("memory_recomputed" if EXEC else "memory_served_original")
            # restore a valid entry for the next damage
            with open(path, "wb") as fh:
                fh.write(raw)
            with open(mpath, "wb") as fh:
                fh.write(mraw)
    finally:
        WRAP[0] = False
        shutil.rmtree(d, ignore_errors=True)
