"""one process of a C02 / C06 history.  usage: memhist_session.py seg.json out.json"""
import asyncio
import functools
import json
import random
import sys
import warnings

cfg = json.load(open(sys.argv[1]))
sys.path.insert(0, cfg["dir"])
warnings.simplefilter("ignore")

import joblib  # noqa: E402
from joblib import Memory  # noqa: E402

from vlib import gen_obj  # noqa: E402
from vlib.memhist_support import LOG  # noqa: E402

mod = __import__(cfg["module"])
# the one cache directory, possibly under a spelling that is not its canonical path (the process runs with cwd = cfg["dir"])
import os  # noqa: E402
LOCATION = cfg["dir"] + "/cache"
style = cfg.get("location_style", "plain")
if style == "relative":
    LOCATION = "cache"
elif style == "dotdot":
    os.makedirs(cfg["dir"] + "/sub", exist_ok=True)
    LOCATION = cfg["dir"] + "/sub/../cache"
elif style == "symlink":
    os.makedirs(cfg["dir"] + "/cache", exist_ok=True)
    if not os.path.islink(cfg["dir"] + "/link"):
        try:
            os.symlink("cache", cfg["dir"] + "/link")
        except FileExistsError:
            pass
    LOCATION = cfg["dir"] + "/link"
mem = Memory(LOCATION, verbose=cfg.get("verbose", 0), compress=cfg.get("compress", False))
holders = {}
wrappers = {}
RECACHE = cfg.get("recache")


def cache(fn, **kw):
    """Memory.cache, optionally applied to an already cached wrapper (mem.cache(mem.cache(f)), a re-created Memory on the
    wrapper): the result must be an equivalent wrapper of the same function"""
    w = mem.cache(fn, **kw)
    if RECACHE == "twice":
        w = mem.cache(w, **kw)
    elif RECACHE == "other-memory":
        w = Memory(LOCATION, verbose=cfg.get("verbose", 0), compress=cfg.get("compress", False)).cache(w, **kw)
    elif RECACHE == "pickled":
        # the wrapper went through pickle (as when it is sent to a worker or stored): an equivalent wrapper must come back
        import pickle
        w = pickle.loads(pickle.dumps(w))
    return w


def get_pair(fi, step):
    """(plain callable, cached callable) for this step"""
    f = cfg["funcs"][fi]
    if f["kind"] == "method" and step.get("via_class"):
        # the same function reached through the class and called with the instance as first argument: Holder.f(h, ...)
        key = (fi, "unbound")
        if key not in wrappers:
            plain = getattr(mod.Holder, f["name"])
            wrappers[key] = (plain, cache(plain, ignore=f["ignore"] or None))
        return wrappers[key] + ([mod.Holder(step.get("holder", "h0"))],)
    if f["kind"] == "method":
        tag = step.get("holder", "h0")
        # a NEW but equal instance each time unless told otherwise: equal state must hit
        key = (fi, tag) if step.get("same_instance", True) else None
        if key is None or key not in wrappers:
            h = mod.Holder(tag)
            plain = getattr(h, f["name"])
            w = (plain, cache(plain, ignore=f["ignore"] or None))
            if key is None:
                return w
            wrappers[key] = w
        return wrappers[key]
    if f["kind"] == "classmethod":
        tag = step.get("holder", "h0")
        key = (fi, "cls", tag)
        if key not in wrappers:
            plain = getattr({"h0": mod.Left, "h1": mod.Right}.get(tag, mod.Base), f["name"])
            wrappers[key] = (plain, cache(plain, ignore=f["ignore"] or None))
        return wrappers[key]
    if f["kind"] == "partial":
        key = (fi, "partial")
        if key not in wrappers:
            base = getattr(mod, f["name"])
            plain = functools.partial(base, *[gen_obj.build(s) for s in f.get("partial_args", [])])
            wrappers[key] = (plain, mem.cache(plain))
        return wrappers[key]
    if fi not in wrappers:
        plain = getattr(mod, f["name"])
        wrappers[fi] = (plain, cache(plain, ignore=f["ignore"] or None))
    return wrappers[fi]


def run(fn, args, kwargs, is_async):
    try:
        if is_async:
            return dict(v=asyncio.run(fn(*args, **kwargs)))
        return dict(v=fn(*args, **kwargs))
    except BaseException as e:  # noqa
        import traceback
        fr = [f"{x.filename.rsplit('/', 1)[-1]}:{x.name}" for x in traceback.extract_tb(e.__traceback__) if "/joblib/" in x.filename]
        return dict(exc=type(e).__name__, msg=str(e)[:200], frame=fr[-1] if fr else "?")


out = []
for step in cfg["steps"]:
    fi = step["f"]
    f = cfg["funcs"][fi]
    if step.get("op") == "clear":
        # the whole Memory, or one function's entries, are cleared on purpose; the process goes on using its wrappers
        try:
            if step["what"] == "memory":
                mem.clear(warn=False)
            else:
                get_pair(fi, step)[1].clear(warn=False)
            out.append(dict(op="clear"))
        except BaseException as e:  # noqa
            out.append(dict(op="clear", exc=f"{type(e).__name__}: {e}"[:200]))
        continue
    is_async = f["kind"] == "async"
    plain, cached, *prefix = get_pair(fi, step)
    prefix = prefix[0] if prefix else []
    perm = random.Random(step.get("perm", 0))
    # share: equal str / bytes leaves of this call are ONE object (a literal or variable reused); otherwise each is a fresh object
    pool = {} if step.get("share") else None
    args = prefix + [gen_obj.build(s, perm, strpool=pool) for s in step["args"]]
    kwargs = {k: gen_obj.build(s, perm, strpool=pool) for k, s in step["kwargs"].items()}
    rec = {}
    if step.get("check_before") and not is_async:
        try:
            rec["in_cache_before"] = bool(cached.check_call_in_cache(*args, **kwargs))
        except BaseException as e:  # noqa
            rec["in_cache_before"] = f"exc:{type(e).__name__}: {str(e)[:100]}"
    n0 = len(LOG)
    if step.get("how") == "shelve" and not is_async:
        try:
            ref = cached.call_and_shelve(*args, **kwargs)
            rec["cached"] = dict(v=ref.get())
        except BaseException as e:  # noqa
            rec["cached"] = dict(exc=type(e).__name__, msg=str(e)[:200], frame="?")
    else:
        rec["cached"] = run(cached, args, kwargs, is_async)
    rec["executed"] = len(LOG) - n0
    # rebuild the arguments for the plain call (the cached call must not have mutated them, but do not rely on it)
    perm = random.Random(step.get("perm", 0) + 1)
    args = prefix + [gen_obj.build(s, perm) for s in step["args"]]
    kwargs = {k: gen_obj.build(s, perm) for k, s in step["kwargs"].items()}
    rec["plain"] = run(plain, args, kwargs, is_async)
    out.append(rec)
# ---------------------------------------------------------------------------
# overlapping calls of ONE cached wrapper: whatever a wrapper remembers between the start and the end of a computation must
# belong to that computation
overlap_errors = []
if cfg.get("overlap"):
    import threading
    import time
    from vlib import memhist_support as ms
    tag = "s%d" % random.Random(len(cfg["steps"])).randrange(1000)
    try:
        # (a) recursion through the wrapper
        ms.REC = cache(ms.rec)
        top = ms.REC(4, tag)
        for k in (4, 3, 2, 1, 0, 4):
            got, want = ms.REC(k, tag), ms.rec_plain(k, tag)
            if got != want:
                overlap_errors.append(f"recursion: rec({k}) returned {got!r} after rec(4) was computed through the cached wrapper, expected {want!r}")
                break
        # (b) two threads: the second call starts while the first computation is in flight and finishes first
        SLOW = cache(ms.slow, ignore=["started", "go"])
        started1, go1 = cfg["dir"] + f"/ov_started_{os.getpid()}", cfg["dir"] + f"/ov_go_{os.getpid()}"
        res = {}
        t1 = threading.Thread(target=lambda: res.__setitem__(1, SLOW(1, tag, started=started1, go=go1)))
        t1.start()
        t0 = time.time()
        while not os.path.exists(started1) and time.time() - t0 < 10:
            time.sleep(0.002)
        res[2] = SLOW(2, tag)            # a complete miss of another key inside the first one
        open(go1, "w").close()
        t1.join(20)
        for x in (1, 2, 1):
            for how in ("call", "shelve"):
                got = SLOW(x, tag) if how == "call" else SLOW.call_and_shelve(x, tag).get()
                if got != ("slow", tag, x) or res.get(x) != ("slow", tag, x):
                    overlap_errors.append(f"threads: slow({x}) returned {got!r} ({how}; the computing call itself returned {res.get(x)!r}) after slow(1) and slow(2) overlapped in two threads")
                    break
        # (c) two asyncio tasks awaiting the same cached coroutine function
        ASLOW = cache(ms.aslow)

        async def both():
            return await asyncio.gather(ASLOW(1, tag), ASLOW(2, tag), ASLOW(3, tag))
        first = asyncio.run(both())
        again = [asyncio.run(ASLOW(x, tag)) for x in (1, 2, 3)]
        want = [("aslow", tag, x) for x in (1, 2, 3)]
        if list(first) != want or again != want:
            overlap_errors.append(f"asyncio: three overlapping tasks returned {first!r}, the same calls afterwards {again!r}, expected {want!r}")
    except BaseException as e:  # noqa
        overlap_errors.append(f"overlapping calls raised {type(e).__name__}: {e}"[:300])
json.dump(dict(steps=out, joblib=joblib.__file__, overlap_errors=overlap_errors, overlap_done=bool(cfg.get("overlap"))), open(sys.argv[2], "w"), default=repr)
