"""child interpreter of C08: rebuild every value (own insertion-order permutation,
fresh string objects) and emit digests"""
import json
import random
import sys

if len(sys.argv) > 4 and sys.argv[4] == "numpy":
    import numpy  # noqa: F401   joblib.hash uses NumpyHasher once numpy is loaded
import joblib
from vlib import gen_obj

class Rev:
    def shuffle(self, items):
        items.reverse()


specs_file, out_file, perm_seed = sys.argv[1], sys.argv[2], int(sys.argv[3])
specs = json.load(open(specs_file))
out = []
for idx, spec in specs:
    row = {"idx": idx}
    try:
        a = gen_obj.build(spec, random.Random(perm_seed * 7919 + idx))
        b = gen_obj.build(spec, random.Random(perm_seed * 104729 + idx + 1))
        row["md5"] = joblib.hash(a)
        row["md5_b"] = joblib.hash(b)          # other insertion order, same process
        row["md5_again"] = joblib.hash(a)      # same object again
        c = gen_obj.build(spec, random.Random(perm_seed * 7919 + idx), strpool={})
        row["md5_shared_strings"] = joblib.hash(c)   # equal strings are one object instead of distinct ones
        # spec order and its reverse: generators write some members in ascending order, which a sort sees as one run
        row["md5_spec"] = joblib.hash(gen_obj.build(spec, None))
        row["md5_rev"] = joblib.hash(gen_obj.build(spec, Rev()))
        row["sha1"] = joblib.hash(a, hash_name="sha1")
        row["sha1_b"] = joblib.hash(b, hash_name="sha1")
    except Exception as e:  # noqa
        row["err"] = f"{type(e).__name__}: {e}"[:300]
    out.append(row)
json.dump({"rows": out, "joblib": joblib.__file__, "numpy_loaded": "numpy" in sys.modules, "hashseed": sys.flags.hash_randomization}, open(out_file, "w"))
