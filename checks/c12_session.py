"""one fresh-process session of C12: (re)write the function's file with the requested version, call it."""
import json
import os
import subprocess
import sys
import warnings

cfg = json.load(open(sys.argv[1]))
d, k, style = cfg["dir"], cfg["version"], cfg["style"]
BODY = ("import json, os\n\n\ndef f(x):\n    fd = os.open({log!r}, os.O_WRONLY | os.O_APPEND)\n    os.write(fd, (json.dumps(['v{k}', x]) + '\\n').encode())\n"
        "    os.close(fd)\n    return ('v{k}', x)\n")

if cfg.get("shape"):
    sys.path.insert(0, os.path.dirname(os.path.dirname(os.path.abspath(__file__))))
    from vlib import c12_shapes
    BODY = c12_shapes.OUT_SRC.replace("{log!r}", repr(cfg["log"])).replace("{", "{{").replace("}", "}}") + c12_shapes.SHAPES[cfg["shape"]]

if style == "module":
    path = os.path.join(d, "c12pmod.py")
    new = BODY.format(log=cfg["log"], k=k)
    if not os.path.exists(path) or open(path).read() != new:
        with open(path, "w") as f:
            f.write(new)
    sys.path.insert(0, d)
    warnings.simplefilter("ignore")
    import joblib
    from joblib import Memory
    import c12pmod
    if cfg.get("edit_after_import"):
        # the source file is edited while this process - which has the OLD definition loaded - has not yet called the
        # function (an edit made while a long job is running)
        with open(path, "w") as f:
            f.write(BODY.format(log=cfg["log"], k=cfg["edit_after_import"]))
    if cfg.get("which"):
        # one function object cached by two Memory objects on two directories
        cs = [Memory(os.path.join(d, "cache"), verbose=0).cache(c12pmod.f), Memory(os.path.join(d, "cache_b"), verbose=0).cache(c12pmod.f)]
        vals = [cs[w](a) for w, a in zip(cfg["which"], cfg["args"])]
    else:
        c = Memory(os.path.join(d, "cache"), verbose=0).cache(c12pmod.f)
        vals = [c(a) for a in cfg["args"]]
    json.dump(dict(values=vals, joblib=joblib.__file__), open(sys.argv[2], "w"))
else:
    # a __main__ script that is rewritten and re-run
    script = os.path.join(d, "c12main.py")
    new = (BODY.format(log=cfg["log"], k=k) +
           "\n\nif __name__ == '__main__':\n    import sys, warnings\n    warnings.simplefilter('ignore')\n    import joblib\n    from joblib import Memory\n"
           f"    c = Memory({os.path.join(d, 'cache')!r}, verbose=0).cache(f)\n"
           f"    vals = [c(a) for a in {cfg['args']!r}]\n"
           f"    json.dump(dict(values=vals, joblib=joblib.__file__), open({sys.argv[2]!r}, 'w'))\n")
    if not os.path.exists(script) or open(script).read() != new:
        with open(script, "w") as f:
            f.write(new)
    r = subprocess.run([sys.executable, script], env=os.environ, timeout=100)
    sys.exit(r.returncode)
