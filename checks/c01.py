"""C01 - Parallel(...)(tasks) == the sequential loop, in order, each task exactly once.

Monitors: (a) scripted backend (completion order, callback threads, synchronous
in-submit completion owned by the check) + seeded pre-emption injection +
instrumented input iterator + execution log; (b) the real backends (threading,
loky, multiprocessing, sequential) with seeded task durations, each run in its
own subprocess session.
"""

import collections
import json
import os
import shutil
import threading
import time

from vlib import harness

ID = "C01"
LEVEL = "exploration"
RULE = ("a case is one Parallel call: N in {0,1,..around k*n_jobs*batch +-1..,200} x n_jobs x batch_size (1,2,3,7,25,40,'auto') x "
        "pre_dispatch (1,2,'n_jobs','2*n_jobs','1.5*n_jobs','all',3*n, and forms that evaluate to 0: 0, 'n_jobs//16', '0.1*n_jobs', 'n_jobs-n_jobs') x return_as (list, generator), on (a) the scripted "
        "backend with a seeded completion order, 1-3 callback threads, optional synchronous in-submit completion and "
        "seeded pre-emption injection on joblib/parallel.py (for 'auto', 60 % of the calls feed joblib's own auto-batching heuristic with scripted batch durations - fast then slow, slow then fast, alternating, ramps, random, in virtual time - so that the batch size grows and shrinks during the call), or (b) a real backend with seeded task durations, or (c) two generator "
        "calls on one object, the second made while the first generator still holds results of its completed run; "
        "distinct_nontrivial counts distinct (configuration, observed completion order) pairs with N >= 2")
ASSUMPTIONS = [
    "tasks are pure and return a value that encodes their index; executions are counted by a log the tasks write themselves",
    "the scripted backend only uses joblib's documented backend extension API",
    "a caller still blocked while the backend holds no pending batch, no callback is in flight and no event has been "
    "recorded for 6 s is a hang witness; anything else that overruns the watchdog is inconclusive",
]
SHARDS = {"quick": 12, "thorough": 14}
FLOORS = {"quick": {"abandoned_calls_with_a_callback_pulling_from_a_slow_input": 24, "scripted_calls": 1500, "real_backend_calls": 60, "injected_yields": 2000, "sync_in_submit_completions": 200,
                    "distinct_completion_orders": 400, "second_calls_while_first_generator_holds_results": 40,
                    "auto_calls_with_scripted_durations": 100, "auto_calls_in_which_the_batch_size_shrank": 40, "distinct_auto_batch_size_sequences": 60},
          "thorough": {"scripted_calls": 30000, "real_backend_calls": 900, "injected_yields": 40000,
                       "sync_in_submit_completions": 4000, "distinct_completion_orders": 8000, "second_calls_while_first_generator_holds_results": 800,
                       "auto_calls_with_scripted_durations": 2000, "auto_calls_in_which_the_batch_size_shrank": 800, "distinct_auto_batch_size_sequences": 800}}

_S = {}
EXECLOG = []
LOGLOCK = threading.Lock()


def task(i, tag):
    with LOGLOCK:
        EXECLOG.append(i)
    return (tag, i)


def shard_setup(tier):
    import joblib._parallel_backends as jb
    import joblib.parallel as jp
    from vlib import yieldinj
    instr = [jp.Parallel._start.__code__, jp.Parallel.dispatch_next.__code__, jp.BatchCompletionCallBack._dispatch_new.__code__,
             jp.Parallel._wait_retrieval.__code__]
    _S["inj"] = yieldinj.Injector([jp, jb], 0, instr_cos=instr, p_instr=0.0).__enter__()


def cases(tier, seed):
    n = 180 if tier == "quick" else 3600
    if os.environ.get("VERIF_C01_ONLY") == "abandon-slow":     # debugging aid
        n = 0
    for i in range(n):
        yield dict(kind="scripted", i=i, runs=10)
    m = 24 if tier == "quick" else 300
    for i in range(m):
        yield dict(kind="real", i=i)
    for i in range(60 if tier == "quick" else 1200):
        yield dict(kind="reuse", i=i)
    for i in range(36 if tier == "quick" else 600):
        yield dict(kind="abandon-slow", i=i)


def gen_config(rng):
    J = rng.choice([2, 2, 3, 4, 8])
    b = rng.choice([1, 1, 2, 3, 7, "auto", "auto", 25, 40])
    pd = rng.choice(["2*n_jobs", "n_jobs", 1, 2, 3, "all", "1.5*n_jobs", 3 * J, "2*n_jobs", rng.choice([0, "n_jobs//16", "0.1*n_jobs", "n_jobs-n_jobs"])])
    bb = 1 if b == "auto" else b
    edge = rng.choice([1, 2, 3]) * J * bb + rng.choice([-1, 0, 1])
    N = rng.choice([0, 1, 2, 3, 5, 8, 13, 24, 40, max(0, edge), max(0, edge), 200 if rng.random() < 0.15 else 31])
    if bb >= 21:
        # large batches: the last look-ahead slice (shorter than n_jobs*batch_size, re-cut into smaller batches) has many shapes
        N = rng.randrange(0, 3 * J * bb)
    return dict(N=N, J=J, b=b, pd=pd, ra=rng.choice(["list", "generator"]))


def run_abandon_slow(case, ctx):
    """one Parallel object (threading backend, generator results) used twice: the first call is abandoned from the caller's
    thread (close) at the moment a completion callback is pulling from a slow input, which delivers its items a seeded
    delay later; the second call must return exactly the values of its own tasks, in order."""
    from joblib import Parallel, delayed
    rng = harness.rng_for(ctx.seed, ID, "abandon", case["i"])
    J = rng.choice([2, 2, 3, 4])
    bs = rng.choice([1, 1, 2])
    pd = rng.choice([J * bs, J * bs, 2 * J * bs, bs])
    delay = rng.choice([0.0, 0.01, 0.03, 0.08])
    more = rng.choice([J * bs, 2 * J * bs + 1, 1])
    n2 = rng.choice([1, 4, 2 * J + 1])
    in_slice, release = threading.Event(), threading.Event()
    desc = dict(n_jobs=J, batch_size=bs, pre_dispatch=pd, delay=delay, later_items=more, second_call_tasks=n2)
    inj = _S.get("inj")
    if inj is not None:
        # this scenario owns its schedule: no pre-emption left over from the scripted histories of the same shard
        inj.reseed(0, p_yield=0.0, p_sleep=0.0)
        inj.p_instr, inj.instr_p = 0.0, {}
        inj.hooks.clear()

    def t(call, i):
        return (call, i)

    def slow_input():
        for i in range(pd):
            yield delayed(t)("call1", i)
        in_slice.set()              # pulled by a completion callback from here on (the caller pulled the pre-dispatched items)
        release.wait(20)
        for i in range(pd, pd + more):
            yield delayed(t)("call1", i)

    def body(res):
        p = Parallel(n_jobs=J, backend="threading", pre_dispatch=pd, batch_size=bs, return_as="generator")
        out = p(slow_input())
        if not in_slice.wait(20):
            res["inconclusive"] = "no callback pulled from the input"
            release.set()
            out.close()
            return
        def releaser():
            # scheduling only (no verdict depends on it): the input delivers its items `delay` after the caller's close() has
            # marked the call as given up (or after 5 s at the latest)
            t0 = time.monotonic()
            while not getattr(p, "_aborting", False) and time.monotonic() - t0 < 5:
                time.sleep(0.0005)
            res["abort_seen"] = bool(getattr(p, "_aborting", False))
            time.sleep(delay)
            release.set()
        threading.Thread(target=releaser, daemon=True).start()
        out.close()
        release.wait(20)
        res["second"] = list(p(delayed(t)("call2", i) for i in range(n2)))

    res = {}
    th = threading.Thread(target=body, args=(res,), daemon=True)
    th.start()
    th.join(90)
    ctx.evaluated()
    release.set()
    if th.is_alive():
        ctx.inconclusive("abandon-slow-blocked", desc)
        return
    if "inconclusive" in res or "second" not in res:
        ctx.inconclusive("abandon-slow:" + res.get("inconclusive", "ended without a result"), desc)
        return
    ctx.count("abandoned_calls_with_a_callback_pulling_from_a_slow_input")
    if res.get("abort_seen"):
        ctx.count("slow_inputs_released_after_the_call_was_marked_as_given_up")
    ctx.sig(("abandon-slow", J, bs, pd, delay, more, n2))
    want = [("call2", i) for i in range(n2)]
    if res["second"] != want:
        foreign = [v for v in res["second"] if v[0] != "call2"]
        ctx.violation("reuse-after-abandoned-call:" + ("values-of-the-abandoned-call-returned" if foreign else "wrong-values"),
                      f"the call that followed an abandoned call (closed while a callback pulled from a slow input, items {delay}s later) "
                      f"returned {res['second']} instead of {want}", dict(desc, got=res["second"]))


def run_case(case, ctx):
    if case["kind"] == "real":
        return run_real(case, ctx)
    if case["kind"] == "abandon-slow":
        return run_abandon_slow(case, ctx)
    if case["kind"] == "reuse":
        # two generator calls on one object, the second made while the first generator still holds results of its
        # (completed) run: each call must yield exactly its own values (scenario shared with C16)
        from checks import c16
        th = threading.Thread(target=c16.guard(c16.run_hold, ctx), args=(dict(case, i=100000 + case["i"]), ctx, "reuse:"), daemon=True)
        th.start()
        th.join(120)
        if th.is_alive():
            ctx.violation("nontermination:reuse", f"two-call scenario {case} still blocked after 120 s", case)
        return
    for r in range(case["runs"]):
        if sum("nontermination" in v["key"] for v in ctx.violations) >= 3:
            return
        run_scripted(case["i"] * 1000 + r, ctx)


def run_scripted(sid, ctx):
    from joblib import Parallel, delayed
    from vlib.scripted_backend import AutoController, ScriptedBackend, Src, Trace, stacks

    rng = harness.rng_for(ctx.seed, ID, "s", sid)
    cfg = gen_config(rng)
    J = cfg["J"]
    short = sid % 5 == 4
    if short:
        # "short input" family: the input ends while the caller is still in its start-up phase, so the
        # callbacks' end-of-input bookkeeping overlaps the caller's; only the caller is slowed down
        cfg["N"] = rng.choice([1, 1, 2, J, J + 1])
        cfg["b"] = rng.choice([1, 1, 2])
        cfg["pd"] = rng.choice(["2*n_jobs", "n_jobs", 1, 2])
    N = cfg["N"]
    ncb = rng.choice([1, 2, 3])
    sync_p = rng.choice([0.0, 0.0, 0.3, 1.0]) if not short else rng.choice([0.0, 0.0, 0.3])
    tag = f"s{sid}"
    trace = Trace()
    srng = harness.rng_for(ctx.seed, ID, "sync", sid)
    # one run in six: a backend WITHOUT a retrieval callback (the base flavour of the backend API): the caller's thread fetches
    # the results itself, in order, while completion callbacks only dispatch; such backends support neither generators nor timeouts
    plain_api = sid % 6 == 2
    if plain_api:
        cfg["ra"] = "list"
        ctx.count("scripted_calls_on_a_backend_without_retrieval_callback")
    be = ScriptedBackend(trace=trace, sync_in_submit=(lambda fut: srng.random() < sync_p) if sync_p else None, retrieve_callback=not plain_api)
    profile = None
    if cfg["b"] == "auto" and not short and rng.random() < 0.6:
        # the real auto-batching heuristic fed with scripted batch durations (virtual time: nothing sleeps), so that the
        # batch size grows, shrinks and is reset while the call runs
        profile = rng.choice(["fast-then-slow", "fast-then-slow", "random", "alternating", "slow-then-fast", "ramp"])
        cfg["N"] = N = rng.choice([N, 40, 64, 120, 200])
        drng = harness.rng_for(ctx.seed, ID, "dur", sid)
        switch = drng.randint(1, 9)
        fast, slow = drng.choice([0.0005, 0.02, 0.1, 0.19]), drng.choice([2.1, 2.5, 5.0, 30.0, 1000.0])
        seen = [0]

        def virtual(batch_size, real):
            seen[0] += 1
            k = seen[0]
            if profile == "fast-then-slow":
                return fast if k <= switch else slow * batch_size
            if profile == "slow-then-fast":
                return slow if k <= switch else fast
            if profile == "alternating":
                return fast if (k // switch) % 2 == 0 else slow
            if profile == "ramp":
                return fast * (2 ** k) if k < 16 else slow
            return drng.choice([fast, fast, 0.3, 1.0, slow])
        be.virtual_duration = virtual
        ctx.count("auto_calls_with_scripted_durations")
    ctl = AutoController(be, harness.rng_for(ctx.seed, ID, "ctl", sid), nthreads=ncb, jitter=rng.random() < 0.7)
    inj = _S["inj"]
    inj.reseed(ctx.seed * 7919 + sid, p_yield=rng.choice([0.0, 0.02, 0.05]), p_sleep=rng.choice([0.0, 0.005, 0.01]))
    inj.p_instr = rng.choice([0.0, 0.1, 0.3])   # instruction-level pre-emption in the few functions that update shared flags without the lock
    inj.instr_p = {}
    if short:
        import joblib.parallel as jp
        inj.reseed(ctx.seed * 7919 + sid, p_yield=0.0, p_sleep=0.0)
        inj.p_instr = 0.0
        inj.instr_p = {jp.Parallel._start.__code__: 0.5}
    y0 = inj.yields
    i0 = inj.instr_yields
    with LOGLOCK:
        del EXECLOG[:]
    src = Src(N, lambda i: delayed(task)(i, tag), trace, widen=rng.choice([0, 0.0001, 0.0003]))
    res = {}

    def call():
        try:
            out = Parallel(n_jobs=J, backend=be, batch_size=cfg["b"], pre_dispatch=cfg["pd"], return_as=cfg["ra"])(src)
            res["out"] = list(out)
        except BaseException as e:  # noqa
            res["exc"] = e

    ctl.start()
    th = threading.Thread(target=call, daemon=True)
    th.start()
    th.join(40)
    ctx.evaluated()
    ctx.count("scripted_calls")
    desc = dict(cfg, callback_threads=ncb, sync_in_submit_p=sync_p, sid=sid, duration_profile=profile, retrieval_callback=not plain_api)
    if th.is_alive():
        # logical hang criterion: backend quiescent and no event for 6 s
        n0 = len(trace.events)
        quiet = True
        for _ in range(6):
            time.sleep(1.0)
            if not th.is_alive() or len(trace.events) != n0 or be.pending_snapshot() or not be.quiescent():
                quiet = False
                break
        if th.is_alive() and quiet:
            st = stacks().get(th.ident, "")
            ctx.violation("nontermination:quiescent-hang",
                          f"Parallel call {desc} still blocked with no pending batch, no callback in flight and no event for 6 s",
                          dict(desc, stack=st[-1500:], events=trace.events[-10:]))
        else:
            ctx.inconclusive("watchdog", desc)
        ctl.shutdown()
        return
    ctl.shutdown()
    ctx.count("injected_yields", inj.yields - y0)
    ctx.count("injected_instruction_level_yields", inj.instr_yields - i0)
    ev = trace.snapshot()
    order = [e["bid"] for e in ev if e["k"] == "complete"]
    ctx.count("sync_in_submit_completions", sum(1 for e in ev if e["k"] == "complete" and e["sync"]))
    ctx.maxi("max_batch_size_seen", max([e["size"] for e in ev if e["k"] == "submit"] or [0]))
    if profile:
        sizes = [e["b"] for e in ev if e["k"] == "batch_size"]
        ctx.add("distinct_auto_batch_size_sequences", tuple(sizes[:40]))
        if any(x > y for x, y in zip(sizes, sizes[1:])):
            ctx.count("auto_calls_in_which_the_batch_size_shrank")
    cb_threads = {e["t"] for e in ev if e["k"] == "complete"}
    ctx.maxi("max_callback_threads_in_one_call", len(cb_threads))
    if N >= 2:
        ctx.sig((cfg, order))
        ctx.add("distinct_completion_orders", (N, J, str(cfg["b"]), order))
    if be.errors:
        ctx.violation("callback-raised", f"completion callback raised: {be.errors[0][-300:]}", desc)
    if "exc" in res:
        e = res["exc"]
        ctx.violation(f"exception:{type(e).__name__}", f"Parallel call {desc} raised {type(e).__name__}: {str(e)[:200]}", desc)
        return
    want = [(tag, i) for i in range(N)]
    if res["out"] != want:
        ctx.violation("wrong-result", f"Parallel call {desc} returned {str(res['out'])[:200]} instead of {str(want)[:120]}", desc)
    with LOGLOCK:
        c = collections.Counter(EXECLOG)
    if sorted(c) != list(range(N)) or any(v != 1 for v in c.values()):
        bad = {k: v for k, v in c.items() if v != 1}
        missing = [i for i in range(N) if i not in c]
        ctx.violation("not-exactly-once", f"Parallel call {desc}: tasks executed != once: twice={bad} never={missing[:10]}", desc)
    submitted = collections.Counter(i for e in ev if e["k"] == "submit" for i in e["items"])
    if any(v > 1 for v in submitted.values()):
        ctx.violation("duplicate-submit", f"Parallel call {desc}: items submitted twice {[k for k, v in submitted.items() if v > 1][:10]}", desc)
    if src.reentered:
        ctx.violation("input-reentered", f"Parallel call {desc}: input iterator entered by two threads at once ({src.reentered}x)", desc)
    pulls = [e["i"] for e in ev if e["k"] == "pull"]
    if pulls != list(range(N)):
        ctx.violation("input-order", f"Parallel call {desc}: input pulled as {pulls[:20]}", desc)
    if sid % 397 == 0:
        ctx.sample(dict(desc, completion_order=order[:30], yields=inj.yields - y0))


# ---------------------------------------------------------------------------
# real backends, one subprocess session per case


def run_real(case, ctx):
    rng = harness.rng_for(ctx.seed, ID, "real", case["i"])
    backend = ["threading", "loky", "multiprocessing", "sequential", "threading", "loky"][case["i"] % 6]
    cfgs = []
    for _ in range(4 if backend in ("loky", "multiprocessing") else 8):
        c = gen_config(rng)
        if backend in ("loky", "multiprocessing"):
            c["J"] = min(c["J"], 4)
            c["N"] = min(c["N"], 60)
        else:
            c["N"] = min(c["N"], 130)
        if backend == "sequential":
            c["J"] = 1
        if backend == "multiprocessing":
            c["ra"] = "list"   # documented: the multiprocessing backend rejects generator outputs at construction
        c["durs"] = rng.choice(["zero", "random", "descending"])
        c["seed"] = rng.randrange(1 << 30)
        cfgs.append(c)
    d = harness.mkscratch("vjl-c01-")
    try:
        cf, of = os.path.join(d, "cfg.json"), os.path.join(d, "out.json")
        with open(cf, "w") as f:
            json.dump(dict(backend=backend, cfgs=cfgs, dir=d), f)
        r = harness.run_py([os.path.join(harness.VERIF, "checks", "c01_real.py"), cf, of], timeout=240,
                           result_file=of, dump_stacks_at=(150, 20))
        if r["result"] is None:
            if r["timed_out"] and r["stacks"] and len(r["stacks"]) == 2 and same_stacks(r["stacks"]):
                ctx.evaluated()
                ctx.violation("nontermination:real-backend-hang",
                              f"{backend} call did not terminate; two identical stack dumps 20 s apart", dict(backend=backend, cfgs=cfgs, stack=r["stacks"][1][-2000:]))
            else:
                ctx.inconclusive("real-backend-child-failed", dict(backend=backend, rc=r["rc"], err=r["err"][-600:]))
            return
        for c, out in zip(cfgs, r["result"]["runs"]):
            ctx.evaluated()
            ctx.count("real_backend_calls")
            ctx.count(f"real_calls_{backend}")
            N = c["N"]
            desc = dict(c, backend=backend)
            if N >= 2:
                ctx.sig((backend, {k: c[k] for k in ("N", "J", "b", "pd", "ra")}, out.get("exec_order")))
            if out.get("exc"):
                ctx.violation(f"exception:{out['exc'].split(':')[0]}", f"{backend} call {desc} raised {out['exc']}", desc)
                continue
            want = [["r", i] for i in range(N)]
            if out["out"] != want:
                ctx.violation("wrong-result", f"{backend} call {desc} returned {str(out['out'])[:200]}", desc)
            cnt = collections.Counter(out["exec_order"])
            if sorted(cnt) != list(range(N)) or any(v != 1 for v in cnt.values()):
                ctx.violation("not-exactly-once", f"{backend} call {desc}: execution counts {dict((k, v) for k, v in cnt.items() if v != 1)} "
                                                  f"missing {[i for i in range(N) if i not in cnt][:10]}", desc)
            if out["exec_order"] != sorted(out["exec_order"]):
                ctx.count("real_calls_executed_out_of_order")
    finally:
        shutil.rmtree(d, ignore_errors=True)


def same_stacks(st):
    import re
    norm = [re.sub(r"0x[0-9a-f]+", "", s) for s in st]
    return norm[0].strip() != "" and norm[0] == norm[1]
