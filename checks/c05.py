"""C05 - killing the process at any instant never corrupts the Memory cache.

Engine: LD_PRELOAD interposer (native/fsshim.c).  Step 1 logs the mutating
file-system calls a workload issues under the cache directory; step 2 re-runs the
workload from the same pre-state once per crash point and lets the shim SIGKILL
it there (before each mutating call, after the last one, and at every page
boundary of every write that crosses one); step 3 checks recovery in fresh
processes without the shim.
"""

import json
import os
import shutil
import subprocess

from vlib import harness

ID = "C05"
LEVEL = "fault_enumeration"
RULE = ("workloads W1 cold first call, W2 warm call + miss, W3 call after the function's source changed, W4 "
        "cache_validation_callback invalidation (expired and still valid), W5 call_and_shelve + clear of a shelved result, "
        "W6 compressed store, W7 reduce_size, W8 clear of a function and of the whole store, W9 results spanning several "
        "pages, W10 func_code.py longer than a page, W13 the same with non-ASCII text straddling the page boundary, W11/W12 source change with six old entries (the function directory is wiped file by file, in two different directory orders); a case is (workload, crash point): SIGKILL before the k-th mutating "
        "file-system call under the cache directory for every k, after the last one, and after each page-boundary prefix "
        "of every write crossing a 4096-byte file offset; each crashed directory is then recovered five times in fresh "
        "processes (plain Memory, with expires_after(days=1), with a user-defined callback reading metadata['duration'] / ['time'], and through call_and_shelve(x).get() with check_call_in_cache compared against what the call then does - with a silent and with a verbose (verbose=11) Memory); in the thorough tier a third of them are recovered by a process that is itself killed at every second of its own mutating calls, and recovered again; distinct_nontrivial counts distinct (workload, crash "
        "point, crash mode) whose process was really killed by the shim"
        " For func_code.py - the one file written in place - nine sub-page prefixes of its first write per workload are tried as well.")
ASSUMPTIONS = [
    "crash model: process death on a local file system - directory operations atomic, torn writes at page granularity; for func_code.py (written in place) also nine sub-page prefixes per workload, as file systems with a smaller write granularity can leave them",
    "single-threaded writer; 'after call k' equals 'before call k+1' as a file-system state and is enumerated once",
    "recovery may warn but must neither raise nor return a value different from the plain function; every file named "
    "output.pkl must load to one complete legitimate result",
]
EXHAUSTIVE = {"quick": True, "thorough": True}
SHARDS = {"quick": 12, "thorough": 14}
FLOORS = {"quick": {"crash_points": 250, "killed_by_shim": 250, "recoveries": 1000, "torn_write_points": 15},
          "thorough": {"crash_points": 250, "killed_by_shim": 250, "recoveries": 500, "torn_write_points": 20, "strace_crosschecks": 10, "second_order_crash_points": 300}}

QUICK_W = ["W1", "W3", "W4", "W6", "W9"]
ALL_W = ["W1", "W2", "W3", "W4", "W5", "W6", "W7", "W8", "W9", "W10", "W11", "W12", "W13"]
PARTS = 4
WL = os.path.join(harness.VERIF, "checks", "c05_workload.py")


def cases(tier, seed):
    yield dict(w="unpicklable", part=0)
    for w in ALL_W:
        for j in range(PARTS):
            yield dict(w=w, part=j)
    if tier == "thorough":
        for w in ALL_W:
            yield dict(w=w, part="strace")


def setup(tier):
    harness.ensure_shim()


def write_funcs(scratch, w, version):
    pad = 50000 if w == "W9" else 300
    doc = ('"""' + "long docstring " * 400 + '"""') if w == "W10" else '"""cached function"""'
    head = f"PAD = {pad}\n\n\ndef make(tag, x):\n    return [\"res\", tag, x, \"p\" * PAD]\n\n\n"
    if w == "W13":
        # a source text longer than a page whose non-ASCII documentation straddles the page boundary: the stored copy
        # (func_code.py = '# first line: N' + the function's text) torn at 4096 bytes ends inside a multi-byte character
        for shift in range(4):
            doc = '"""' + " " * shift + "說明文字 " * 500 + '"""'
            stored = (f"# first line: 9\ndef f(x):\n    {doc}\n").encode("utf8")
            if stored[4096] & 0xC0 == 0x80:
                break
    src = head + f"def f(x):\n    {doc}\n    return make(\"{version}\", x)\n"
    with open(os.path.join(scratch, "c05funcs.py"), "w", encoding="utf8") as f:
        f.write(src)


def run_phase(w, phase, scratch, env_extra=None, timeout=120):
    out = os.path.join(scratch, f"out.{phase}.json")
    if os.path.exists(out):
        os.unlink(out)
    r = harness.run_py([WL, w, phase, scratch, out], timeout=timeout, env_extra=env_extra, result_file=out)
    return r


def make_prestate(w, base):
    os.makedirs(base)
    write_funcs(base, w, "A")
    r = run_phase(w, "pre", base)
    if r["rc"] != 0:
        raise RuntimeError(f"pre-state of {w} failed: {r['err'][-500:]}")
    if w in ("W3", "W11", "W12"):
        write_funcs(base, w, "B")   # the source changes between the sessions
    for f in os.listdir(base):
        if f.startswith("out."):
            os.unlink(os.path.join(base, f))


def clone(base, dst):
    shutil.copytree(base, dst, symlinks=True)


def read_log(path):
    evs = []
    with open(path) as f:
        for line in f:
            p = line.rstrip("\n").split(" ", 6)
            if len(p) >= 7 and p[4] == "1":
                evs.append(dict(n=int(p[0]), op=p[3], arg=int(p[5]), path=p[6]))
    return evs


def crash_plan(evs):
    """(k, mode) list: before every mutating call, after the last, page-boundary tears"""
    plan = [(e["n"], "before") for e in evs]
    if evs:
        plan.append((evs[-1]["n"], "after"))
    # file offsets: track bytes written per path since its (re)creation
    off = {}
    subpage = set()
    for e in evs:
        if e["op"] == "open":
            off[e["path"]] = 0
        elif e["op"] == "write":
            start = off.get(e["path"], 0)
            end = start + e["arg"]
            b = (start // 4096 + 1) * 4096
            while b < end:
                plan.append((e["n"], f"torn:{b - start}"))
                b += 4096
            off[e["path"]] = end
            if path_class(e["path"]) == "func_code.py" and start == 0 and e["path"] not in subpage:
                # func_code.py is the one file joblib writes IN PLACE under its final name.  On a local Linux file system a kill
                # tears a write at page boundaries only; file systems with a smaller write granularity (network / FUSE mounts)
                # can leave any prefix: a few prefixes inside the '# first line: N' header and inside the text are tried for the
                # first write of the file in each workload
                subpage.add(e["path"])
                for n in sorted({1, 5, 12, 13, 14, 15, 17, e["arg"] // 2, e["arg"] - 1}):
                    if 0 < n < e["arg"] and n % 4096:
                        plan.append((e["n"], f"torn:{n}"))
    return plan


def path_class(p):
    base = p.rsplit("/", 1)[-1]
    for k in ("output.pkl", "metadata.json", "func_code.py", ".gitignore"):
        if base.startswith(k):
            return k + (".tmp" if base != k else "")
    return "dir"


def unpicklable_result(x):
    return ["res", x, (lambda: x)]


def run_unpicklable(ctx):
    """no kill at all: a result that cannot be pickled must not leave a (necessarily incomplete) file under the final name"""
    import glob
    import warnings
    import joblib
    from joblib import Memory
    d = harness.mkscratch("vjl-c05-unp-")
    try:
        for compress in (False, True):
            with warnings.catch_warnings():
                warnings.simplefilter("ignore")
                c = Memory(os.path.join(d, f"c{int(compress)}"), verbose=0, compress=compress).cache(unpicklable_result)
                v = c(3)
                ctx.evaluated()
                ctx.count("unpicklable_results_stored")
                desc = dict(workload="result that cannot be pickled", compress=compress)
                if v[:2] != ["res", 3]:
                    ctx.violation("wrong-value:unpicklable-result", f"call returned {v[:2]}", desc)
                bad = []
                for p in glob.glob(os.path.join(d, f"c{int(compress)}", "**", "output.pkl"), recursive=True):
                    try:
                        joblib.load(p)
                    except Exception as e:  # noqa
                        bad.append((os.path.getsize(p), type(e).__name__))
                if bad:
                    ctx.violation("incomplete-final-file:unpicklable-result", f"a result that could not be pickled left output.pkl files that do not load: {bad} "
                                                                              f"(size, error); compress={compress}", desc)
                try:
                    again = c(3)       # (a reference to a result that cannot be stored has nothing to read: not asked for)
                    if again[:2] != ["res", 3]:
                        ctx.violation("wrong-value:unpicklable-result", f"repeat returned {again[:2]}", desc)
                except Exception as e:  # noqa
                    ctx.violation(f"{type(e).__name__}@repeat-after-unpicklable-result", f"repeating the call raised {type(e).__name__}: {str(e)[:120]}", desc)
        ctx.sig(("unpicklable",))
    finally:
        shutil.rmtree(d, ignore_errors=True)


def run_case(case, ctx):
    w = case["w"]
    if w == "unpicklable":
        return run_unpicklable(ctx)
    work = harness.mkscratch(f"vjl-c05-{w}-")
    try:
        base = os.path.join(work, "base")
        make_prestate(w, base)
        cache = os.path.join(base, "cache")
        # step 1: log run on a clone
        d0 = os.path.join(work, "log")
        clone(base, d0)
        logf = os.path.join(work, "shim.log")
        shim_env = dict(LD_PRELOAD=harness.SHIM, VSHIM_ROOT=os.path.join(d0, "cache"), VSHIM_LOG=logf)
        if case["part"] == "strace":
            return strace_crosscheck(w, base, work, ctx)
        r = run_phase(w, "run", d0, shim_env)
        if r["rc"] != 0 or not r["result"]:
            ctx.inconclusive("workload-failed-without-crash", dict(w=w, err=r["err"][-500:]))
            return
        evs = read_log(logf)
        plan = crash_plan(evs)
        ctx.maxi(f"mutating_calls_{w}", len(evs))
        mine = [p for i, p in enumerate(plan) if i % PARTS == case["part"]]
        for k, mode in mine:
            ev = next(e for e in evs if e["n"] == k)
            d = os.path.join(work, f"c{k}{mode.replace(':', '_')}")
            clone(base, d)
            env = dict(LD_PRELOAD=harness.SHIM, VSHIM_ROOT=os.path.join(d, "cache"), VSHIM_CRASH_AT=k, VSHIM_CRASH_MODE=mode)
            r = run_phase(w, "run", d, env)
            ctx.evaluated()
            ctx.count("crash_points")
            desc = dict(workload=w, crash_at=k, mode=mode, op=ev["op"], path=ev["path"], file=path_class(ev["path"]))
            if r["rc"] != -9:
                ctx.inconclusive("not-killed-at-crash-point", dict(desc, rc=r["rc"], err=r["err"][-300:]))
                shutil.rmtree(d, ignore_errors=True)
                continue
            ctx.count("killed_by_shim")
            if mode.startswith("torn"):
                ctx.count("torn_write_points")
            ctx.sig((w, k, mode))
            ctx.add("crash_ops", f"{ev['op']}:{path_class(ev['path'])}:{mode.split(':')[0]}")
            for phase in ("recover", "recover_cb", "recover_udcb", "recover_shelve", "recover_shelve_verbose"):
                d2 = d + "." + phase
                clone(d, d2)
                rr = run_phase(w, phase, d2)
                ctx.count("recoveries")
                res = rr["result"]
                if res is None:
                    ctx.violation(f"recovery-process-died:{phase}", f"recovery after {desc} exited rc={rr['rc']}: {rr['err'][-300:]}", desc)
                else:
                    if res["bad_final_files"]:
                        ctx.violation(f"incomplete-final-file:{path_class(ev['path'])}:{mode.split(':')[0]}",
                                      f"after {desc}: files visible under their final name are not complete results: {res['bad_final_files'][:2]}", desc)
                    if res["error"]:
                        e = res["error"]
                        key = f"{e['type']}@{e['where'][-1] if e['where'] else '?'}" + {"recover_cb": "+validation-callback", "recover_udcb": "+user-validation-callback", "recover_shelve": "+shelved-references", "recover_shelve_verbose": "+shelved-references+verbose"}.get(phase, "")
                        ctx.violation(key, f"fresh process after a kill {mode} {ev['op']} of {ev['path'].rsplit('/', 2)[-1]} ({w}, call #{k}): "
                                           f"cached call raised {e['type']}: {e['msg']} at {e['where']}", dict(desc, phase=phase, error=e))
                shutil.rmtree(d2, ignore_errors=True)
            if ctx.tier == "thorough" and (k + case["part"]) % 3 == 0:
                second_order(w, d, work, desc, ctx)
            shutil.rmtree(d, ignore_errors=True)
        if case["part"] == 0:
            ctx.sample(dict(workload=w, mutating_calls=[f"{e['op']} {e['path'].rsplit('/', 1)[-1][:40]} {e['arg'] if e['op'] == 'write' else ''}".strip() for e in evs][:40],
                            crash_points=len(plan)))
    finally:
        shutil.rmtree(work, ignore_errors=True)


def second_order(w, crashed, work, first, ctx):
    """the repair of a crashed directory is itself killed at each of its mutating calls; the directory must still recover"""
    dl = crashed + ".l2"
    clone(crashed, dl)
    logf = dl + ".log"
    r = run_phase(w, "recover", dl, dict(LD_PRELOAD=harness.SHIM, VSHIM_ROOT=os.path.join(dl, "cache"), VSHIM_LOG=logf))
    shutil.rmtree(dl, ignore_errors=True)
    if not r["result"]:
        return
    try:
        evs = read_log(logf)
        os.unlink(logf)
    except OSError:
        return
    for e in evs[::2]:
        d2 = crashed + f".x{e['n']}"
        clone(crashed, d2)
        r = run_phase(w, "recover", d2, dict(LD_PRELOAD=harness.SHIM, VSHIM_ROOT=os.path.join(d2, "cache"), VSHIM_CRASH_AT=e["n"], VSHIM_CRASH_MODE="before"))
        ctx.evaluated()
        if r["rc"] != -9:
            shutil.rmtree(d2, ignore_errors=True)
            continue
        ctx.count("second_order_crash_points")
        ctx.sig((w, first["crash_at"], first["mode"], "then", e["n"]))
        rr = run_phase(w, "recover_cb", d2)
        res = rr["result"]
        desc = dict(first, second_crash=dict(at=e["n"], op=e["op"], path=e["path"]))
        if res is None:
            ctx.violation("recovery-process-died:second-order", f"after {desc}: recovery exited rc={rr['rc']}: {rr['err'][-200:]}", desc)
        elif res["bad_final_files"] or res["error"]:
            err = res["error"] or {}
            key = (f"{err.get('type')}@{(err.get('where') or ['?'])[-1]}" if err else "incomplete-final-file") + ":second-order"
            ctx.violation(key, f"crash {first['mode']} call #{first['crash_at']} of {w}, then the recovering process killed before its {e['op']} of "
                               f"{e['path'].rsplit('/', 1)[-1]}: {res['bad_final_files'][:1] or err}", desc)
        shutil.rmtree(d2, ignore_errors=True)


MUTATING_SYSCALLS = "open,openat,creat,mkdir,mkdirat,rename,renameat,renameat2,unlink,unlinkat,rmdir,write,pwrite64,writev,ftruncate,truncate,link,linkat,symlink,symlinkat,utimensat"


def strace_crosscheck(w, base, work, ctx):
    """completeness of the interposer: the sequence of mutating system calls under the cache directory seen by
    strace must equal the shim's log"""
    import re
    d = os.path.join(work, "st")
    clone(base, d)
    cache = os.path.join(d, "cache")
    logf = os.path.join(work, "shim2.log")
    stf = os.path.join(work, "strace.txt")
    out = os.path.join(d, "out.run.json")
    env = harness.child_env(dict(LD_PRELOAD=harness.SHIM, VSHIM_ROOT=cache, VSHIM_LOG=logf))
    try:
        p = subprocess.run(["strace", "-f", "-y", "-o", stf, "-e", "trace=" + MUTATING_SYSCALLS, harness.PY, WL, w, "run", d, out],
                           env=env, stdin=subprocess.DEVNULL, stdout=subprocess.DEVNULL, stderr=subprocess.PIPE, timeout=300)
    except (subprocess.TimeoutExpired, FileNotFoundError) as e:
        ctx.inconclusive("strace-failed", str(e))
        return
    ctx.evaluated()
    if p.returncode != 0:
        ctx.inconclusive("strace-run-failed", p.stderr.decode("utf8", "replace")[-400:])
        return
    seen = []
    for line in open(stf, errors="replace"):
        m = re.match(r"\d+\s+(\w+)\((.*)", line)
        if not m or " = -1 " in line:
            continue
        call, rest = m.group(1), m.group(2)
        if cache not in rest:
            continue
        if call in ("open", "openat", "creat"):
            if not ("O_CREAT" in rest or "O_TRUNC" in rest or call == "creat"):
                continue
            seen.append("open")
        elif call in ("write", "pwrite64", "writev"):
            if not re.match(r"\d+<" + re.escape(cache), rest):
                continue
            seen.append("write")
        else:
            seen.append({"mkdirat": "mkdir", "renameat": "rename", "renameat2": "rename", "unlinkat": "rmdir" if "AT_REMOVEDIR" in rest else "unlink",
                         "ftruncate": "ftruncate", "utimensat": "utime"}.get(call, call))
    shim = []
    for e in read_log(logf):
        # failed calls are logged by the shim too (it logs before the call); strace lines with = -1 were dropped, so
        # drop shim entries whose call failed: only mkdir of an existing directory fails in these workloads
        shim.append({"pwrite": "write", "writev": "write"}.get(e["op"], e["op"]))
    # mkdir(EEXIST) appears in the shim log but not in the successful strace list: compare modulo failed mkdirs
    def strip(seq):
        return [x for x in seq if x != "mkdir"]
    ctx.count("strace_crosschecks")
    ctx.sig((w, "strace", len(seen)))
    if strip(seen) != strip(shim):
        ctx.inconclusive("shim-log-differs-from-strace", dict(w=w, strace=strip(seen)[:60], shim=strip(shim)[:60]))
