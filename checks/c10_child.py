"""child of C10: a history of Parallel calls on the loky backend with one injected worker death.

usage: c10_child.py cfg.json out.json     (progress is appended to out.json.progress so that the parent
can tell where a hung run stopped)
"""
import faulthandler
import json
import os
import signal
import sys
import threading
import time

faulthandler.register(signal.SIGUSR1, all_threads=True)

import joblib  # noqa: E402
from joblib import Parallel, delayed  # noqa: E402
from joblib.externals.loky.process_executor import BrokenProcessPool, TerminatedWorkerError  # noqa: E402

from vlib import c10_tasks  # noqa: E402

cfg = json.load(open(sys.argv[1]))
outfile = sys.argv[2]
progress = outfile + ".progress"


def note(**kw):
    kw["t"] = time.monotonic()
    with open(progress, "a") as f:
        f.write(json.dumps(kw) + "\n")


def alive(pid):
    try:
        os.kill(pid, 0)
    except ProcessLookupError:
        return False
    except PermissionError:
        return True
    try:
        with open(f"/proc/{pid}/stat") as f:
            return f.read().rsplit(")", 1)[1].split()[0] != "Z"
    except OSError:
        return False


def main():
    J, N = cfg["J"], cfg["N"]
    fault = cfg["fault"]          # dict(call, instant, how, victims)
    parent = os.getpid()
    if fault["instant"] == "idle_between_calls" and str(fault["how"]).startswith("exit:"):
        # workers inherit the variable: each leaves a thread behind that exits with the requested status on demand
        os.environ["C10_MINE_DIR"] = os.path.dirname(os.path.abspath(outfile))
    extra = {}
    if fault["instant"] == "after_idle_timeout":
        # workers leave after 1 s of idleness (300 s by default): the faulty call starts on an executor without any worker
        extra["idle_worker_timeout"] = 1.0
    p = Parallel(n_jobs=J, backend="loky", batch_size=cfg.get("batch_size", 1), pre_dispatch=cfg.get("pre_dispatch", "2*n_jobs"), **extra)
    calls = []
    last_pids = []

    def one_call(k):
        nonlocal last_pids, p
        tag = f"k{k}"
        if fault["call"] == k and fault["instant"] == "next_call_startup_other_n_jobs":
            # this call (and the following ones) asks for another number of workers: loky resizes the executor or, when
            # the per-worker thread limits change with n_jobs, shuts it down gracefully and builds a new one
            p = Parallel(n_jobs=fault["J2"], backend="loky", batch_size=cfg.get("batch_size", 1), pre_dispatch=cfg.get("pre_dispatch", "2*n_jobs"))
        spec = None
        victims = set()
        nloc = N
        if fault["call"] == k and fault["instant"] == "after_idle_timeout":
            # wait until every worker of the previous call has left by itself, then make a call of ONE batch whose worker
            # dies (and, in some cases, first kills the other freshly started workers, which are idle)
            t_end = time.monotonic() + 15
            while any(alive(pid) for pid in last_pids) and time.monotonic() < t_end:
                time.sleep(0.05)
            note(ev="workers_idled_out", still_alive=[pid for pid in last_pids if alive(pid)])
            nloc = 1
            victims = {0}
            spec = dict(instant="mid_task_slow", how=fault["how"], parent=parent, after=0.4, kill_siblings=fault["victims"] > 1)
        elif fault["call"] == k and fault["instant"] == "death_while_caller_pulls_input":
            victims = {0}
            spec = dict(instant="mid_task", how=fault["how"], parent=parent)
        elif fault["call"] == k and fault["instant"] not in ("idle_between_calls", "next_call_startup"):
            victims = set(fault["victim_tasks"])
            spec = dict(instant=fault["instant"], how=fault["how"], parent=parent)
        killer = None
        if fault["call"] == k and fault["instant"] in ("next_call_startup", "next_call_startup_other_n_jobs") and last_pids:
            vict = last_pids[:fault["victims"]]

            from joblib.externals.loky import reusable_executor as _re
            ex = _re._executor
            old_max = getattr(ex, "_max_workers", None)
            watch = fault["instant"] == "next_call_startup_other_n_jobs" and ex is not None

            def kill_later():
                if watch:
                    # scheduling only: wait (busy) until loky has started to shut the executor down or to resize it
                    end = time.monotonic() + 5
                    while time.monotonic() < end and not (ex._flags.shutdown or ex._max_workers != old_max):
                        time.sleep(0)
                    note(ev="executor_change_seen", shutdown=bool(ex._flags.shutdown), max_workers=ex._max_workers)
                time.sleep(fault.get("delay", 0.01))
                for pid in vict:
                    try:
                        os.kill(pid, signal.SIGKILL)
                    except OSError:
                        pass
                note(ev="killed", pids=vict)
            killer = threading.Thread(target=kill_later, daemon=True)
        # task arguments larger than a pipe buffer: the thread feeding the call queue is then in the middle of a write
        # whenever every worker is busy - also at the moment a worker dies
        pad = bytes(cfg["arg_bytes"]) if cfg.get("arg_bytes") else None
        if spec and spec["instant"] == "arg_unpickle":
            tasks = [delayed(c10_tasks.with_arg)(i, tag, c10_tasks.DieOnUnpickle(spec["how"], parent) if i in victims else None, cfg.get("dur", 0.02), pad)
                     for i in range(N)]
        else:
            tasks = [delayed(c10_tasks.task)(i, tag, spec if i in victims else None, cfg.get("dur", 0.02), pad) for i in range(nloc)]
        if fault["call"] == k and fault["instant"] == "death_while_caller_pulls_input":
            # the input is an iterable that keeps the CALLER's thread inside its initial dispatch loop (taking an item) from
            # the moment every worker has a task until the executor has noticed the victim's death, and a little longer
            full = tasks

            def slow_input():
                from joblib.externals.loky import reusable_executor as _re
                for i, t in enumerate(full):
                    if i == J:
                        end = time.monotonic() + 15
                        while time.monotonic() < end:
                            ex = _re._executor
                            if ex is not None and ex._flags.broken:
                                break
                            time.sleep(0.01)
                        note(ev="input_resumes", broken=bool(_re._executor is not None and _re._executor._flags.broken))
                        time.sleep(0.5)
                    yield t
            tasks = slow_input()
        rec = dict(call=k)
        note(ev="call_start", call=k)
        t0 = time.monotonic()
        if killer:
            killer.start()
        try:
            out = p(tasks)
            rec["out_ok"] = [r[:2] for r in out] == [[tag, i] for i in range(nloc)] or [tuple(r[:2]) for r in out] == [(tag, i) for i in range(nloc)]
            rec["pids"] = sorted({r[2] for r in out})
            if not rec["out_ok"]:
                rec["out"] = str(out)[:300]
            last_pids = rec["pids"]
        except BaseException as e:  # noqa
            rec["exc_type"] = type(e).__name__
            rec["exc_is_broken_pool"] = isinstance(e, BrokenProcessPool)
            rec["exc_is_terminated_worker"] = isinstance(e, TerminatedWorkerError)
            rec["exc_msg"] = str(e)[:300]
        rec["dur"] = time.monotonic() - t0
        note(ev="call_end", call=k, dur=rec["dur"])
        calls.append(rec)

    def overlapped(k):
        """call A (generator) is running when call B needs another executor (other arguments: the running one is shut down
        gracefully and replaced) or another size (resized once its jobs are done); the worker dies while B waits"""
        nonlocal last_pids
        tag = f"k{k}"
        victims = set(fault["victim_tasks"])
        spec = dict(instant="mid_task_slow", how=fault["how"], parent=parent, after=0.5 + fault.get("delay", 0.0))
        tasks = [delayed(c10_tasks.task)(i, tag, spec if i in victims else None, 0.1) for i in range(N)]
        note(ev="call_start", call=k, sub="A")
        t0 = time.monotonic()
        recA = dict(call=k, sub="A")
        # everything is dispatched up front: a completion callback of A that submitted more work while B holds loky's
        # executor lock would block for reasons that have nothing to do with the worker's death
        gen = Parallel(n_jobs=J, backend="loky", return_as="generator", pre_dispatch="all")(tasks)
        time.sleep(0.15)
        recB = dict(call=k, sub="B")
        tb = time.monotonic()
        kwB = dict(n_jobs=J, idle_worker_timeout=123) if fault["instant"] == "executor_replacement" else dict(n_jobs=J + 1 if J < 4 else J - 1)
        try:
            out = Parallel(backend="loky", **kwB)(delayed(c10_tasks.task)(i, tag + "B", None, 0.01) for i in range(6))
            recB["out_ok"] = [tuple(r[:2]) for r in out] == [(tag + "B", i) for i in range(6)]
            recB["pids"] = sorted({r[2] for r in out})
            last_pids = recB["pids"]
        except BaseException as e:  # noqa
            recB.update(exc_type=type(e).__name__, exc_is_broken_pool=isinstance(e, BrokenProcessPool),
                        exc_is_terminated_worker=isinstance(e, TerminatedWorkerError), exc_msg=str(e)[:300])
        recB["dur"] = time.monotonic() - tb
        note(ev="sub_end", call=k, sub="B", dur=recB["dur"])
        try:
            out = list(gen)
            recA["out_ok"] = [tuple(r[:2]) for r in out] == [(tag, i) for i in range(N)]
            recA["pids"] = sorted({r[2] for r in out})
        except BaseException as e:  # noqa
            recA.update(exc_type=type(e).__name__, exc_is_broken_pool=isinstance(e, BrokenProcessPool),
                        exc_is_terminated_worker=isinstance(e, TerminatedWorkerError), exc_msg=str(e)[:300])
        recA["dur"] = time.monotonic() - t0
        note(ev="call_end", call=k, dur=recA["dur"])
        calls.append(recA)
        calls.append(recB)

    def history():
        for k in range(cfg["ncalls"]):
            if fault["call"] == k and fault["instant"] in ("executor_replacement", "executor_resize"):
                overlapped(k)
                continue
            if fault["call"] == k and fault["instant"] == "idle_between_calls" and last_pids:
                vict = last_pids[:fault["victims"]]
                if str(fault["how"]).startswith("exit:"):
                    for pid in vict:
                        with open(os.path.join(os.environ["C10_MINE_DIR"], f"die_{pid}.tmp"), "w") as f:
                            f.write(fault["how"][5:])
                        os.replace(os.path.join(os.environ["C10_MINE_DIR"], f"die_{pid}.tmp"), os.path.join(os.environ["C10_MINE_DIR"], f"die_{pid}"))
                    t_end = time.monotonic() + 10
                    while any(alive(pid) for pid in vict) and time.monotonic() < t_end:
                        time.sleep(0.01)
                    note(ev="idle_workers_exited", pids=vict, status=fault["how"], still_alive=[pid for pid in vict if alive(pid)])
                    vict = []
                for pid in vict:
                    try:
                        os.kill(pid, {"SIGKILL": signal.SIGKILL, "SIGTERM": signal.SIGTERM, "SIGSEGV": signal.SIGSEGV}.get(fault["how"], signal.SIGKILL))
                    except OSError:
                        pass
                note(ev="killed_idle", pids=vict)
                time.sleep(fault.get("settle", 0.05))
            one_call(k)
        # workers used by the last call must be alive
        return [pid for pid in last_pids if alive(pid)]

    if cfg["managed"]:
        with p:
            alive_pids = history()
    else:
        alive_pids = history()
    with open(outfile + ".tmp", "w") as f:
        json.dump(dict(calls=calls, last_pids=last_pids, alive_pids=alive_pids, joblib=joblib.__file__), f)
    os.replace(outfile + ".tmp", outfile)
    note(ev="done")
    sys.stdout.flush()
    os._exit(0)


if __name__ == "__main__":
    main()
