"""child of C01: runs Parallel calls on a real backend; tasks log their own execution"""
import faulthandler
import json
import os
import random
import signal
import sys
import time

faulthandler.register(signal.SIGUSR1, all_threads=True)

import joblib  # noqa: E402
from joblib import Parallel, delayed  # noqa: E402


def task(i, logfile, dur):
    if dur:
        time.sleep(dur)
    fd = os.open(logfile, os.O_WRONLY | os.O_APPEND | os.O_CREAT, 0o644)
    try:
        os.write(fd, b"%d %d\n" % (i, os.getpid()))
    finally:
        os.close(fd)
    return ("r", i)


def main():
    cfg = json.load(open(sys.argv[1]))
    backend = cfg["backend"]
    runs = []
    for k, c in enumerate(cfg["cfgs"]):
        rng = random.Random(c["seed"])
        N = c["N"]
        if c["durs"] == "zero":
            durs = [0] * N
        elif c["durs"] == "random":
            durs = [rng.choice([0, 0, 0.001, 0.004, 0.012]) for _ in range(N)]
        else:
            durs = [0.0003 * (N - i) for i in range(N)]
        logfile = os.path.join(cfg["dir"], f"log{k}.txt")
        open(logfile, "w").close()
        kw = dict(n_jobs=c["J"], batch_size=c["b"], pre_dispatch=c["pd"], return_as=c["ra"])
        if backend != "sequential":
            kw["backend"] = backend
        out = {}
        try:
            res = Parallel(**kw)(delayed(task)(i, logfile, durs[i]) for i in range(N))
            out["out"] = list(res)
        except BaseException as e:  # noqa
            out["exc"] = f"{type(e).__name__}: {str(e)[:200]}"
        out["exec_order"] = [int(l.split()[0]) for l in open(logfile).read().split("\n") if l]
        runs.append(out)
    with open(sys.argv[2] + ".tmp", "w") as f:
        json.dump(dict(runs=runs, joblib=joblib.__file__), f)
    os.replace(sys.argv[2] + ".tmp", sys.argv[2])


if __name__ == "__main__":
    main()
