"""client process of C20: talks to the resource tracker through loky's ResourceTracker API on an inherited pipe fd.
usage: c20_client.py <fd> <tracker_pid>; commands (JSON lines) on stdin, 'ok' acknowledgements on stdout"""
import json
import os
import sys
import warnings

warnings.simplefilter("ignore")
fd, tracker_pid = int(sys.argv[1]), int(sys.argv[2])
from joblib.externals.loky.backend import resource_tracker as rt  # noqa: E402

tr = rt._resource_tracker
tr._fd = fd
tr._pid = tracker_pid
sys.stdout.write("ready\n")
sys.stdout.flush()
for line in sys.stdin:
    c = json.loads(line)
    try:
        if c["op"] == "REGISTER":
            rt.register(c["name"], c["rtype"])
        elif c["op"] == "MAYBE_UNLINK":
            rt.maybe_unlink(c["name"], c["rtype"])
        elif c["op"] == "UNREGISTER":
            rt.unregister(c["name"], c["rtype"])
        elif c["op"] == "RAW":
            os.write(fd, bytes.fromhex(c["hex"]))
        elif c["op"] == "EXIT":
            sys.stdout.write("bye\n")
            sys.stdout.flush()
            os._exit(0)
        sys.stdout.write("ok\n")
    except BaseException as e:  # noqa
        sys.stdout.write(f"err {type(e).__name__}: {e}\n".replace("\n", " ") + "\n")
    sys.stdout.flush()
