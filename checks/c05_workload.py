"""Workloads of C05 (and recovery).  usage: c05_workload.py <W> <phase> <scratch> <out.json>

scratch/ holds c05funcs.py (the cached function's module, written by the check)
and cache/ (the Memory location).  phase: pre | run | recover | recover_cb
"""
import glob
import json
import os
import sys
import warnings

W, phase, scratch, outfile = sys.argv[1:5]
sys.path.insert(0, scratch)
warnings.simplefilter("ignore")

import joblib  # noqa: E402
from joblib import Memory, expires_after  # noqa: E402

import c05funcs  # noqa: E402

cache = os.path.join(scratch, "cache")
compress = W == "W6"
calls = []


def plain(x):
    return c05funcs.f.__wrapped__(x) if hasattr(c05funcs.f, "__wrapped__") else c05funcs.f(x)


def mem(cb=None):
    m = Memory(cache, verbose=11 if phase.endswith("_verbose") else 0, compress=compress)
    return m, m.cache(c05funcs.f, cache_validation_callback=cb)


def check(c, xs):
    for x in xs:
        r = c(x)
        if r != c05funcs.f(x):
            raise AssertionError(f"wrong value for f({x}): {str(r)[:80]}")
        calls.append(x)


ARGS = {"W11": [1, 2, 3, 4, 5, 6, 7], "W12": [11, 12, 13, 14, 15, 16, 17], "W1": [1, 2], "W2": [1, 2, 3], "W3": [1, 2, 3], "W4": [1, 2], "W5": [1, 2], "W6": [1, 2], "W7": [1, 2, 3, 4, 5],
        "W8": [1, 2], "W9": [1, 2], "W10": [1, 2], "W13": [1, 2]}[W]

if phase == "pre":
    m, c = mem()
    if W in ("W2", "W3", "W4", "W8"):
        check(c, [1, 2])
    elif W == "W7":
        check(c, [1, 2, 3, 4])
    elif W in ("W11", "W12"):
        check(c, ARGS[:6])
elif phase == "run":
    if W in ("W1", "W6", "W9", "W10", "W13"):
        m, c = mem()
        check(c, [1, 2])
    elif W == "W2":
        m, c = mem()
        check(c, [1, 3])
    elif W == "W3":
        m, c = mem()           # c05funcs.py has been rewritten by the check: new source
        check(c, [1, 3])
    elif W in ("W11", "W12"):
        # source changed with six entries of the old code present: the function directory is wiped entry by entry
        m, c = mem()
        check(c, [ARGS[0], ARGS[6]])
    elif W == "W4":
        m, c = mem(expires_after(seconds=0))   # every entry is expired: recompute and overwrite
        check(c, [1])
        m, c = mem(expires_after(days=1))      # still valid: hit
        check(c, [2])
    elif W == "W5":
        m, c = mem()
        r = c.call_and_shelve(1)
        assert r.get() == c05funcs.f(1)
        r2 = c.call_and_shelve(2)
        r2.clear()
        check(c, [2])
    elif W == "W7":
        m, c = mem()
        m.reduce_size(items_limit=2)
        check(c, [5])
        m.reduce_size(bytes_limit=0)
    elif W == "W8":
        m, c = mem()
        c.clear(warn=False)
        check(c, [1])
        m.clear(warn=False)
        check(c, [2])
elif phase in ("recover", "recover_cb", "recover_udcb", "recover_shelve", "recover_shelve_verbose"):
    # 1) every file visible under its final name must be one complete, legitimate result
    bad = []
    for p in glob.glob(os.path.join(cache, "**", "output.pkl"), recursive=True):
        try:
            v = joblib.load(p)
            ok = isinstance(v, list) and len(v) == 4 and v[0] == "res" and v == c05funcs.make(v[1], v[2])
        except Exception as e:  # noqa
            ok, v = False, f"{type(e).__name__}: {e}"
        if not ok:
            bad.append([os.path.relpath(p, cache), str(v)[:120]])
    for p in glob.glob(os.path.join(cache, "**", "metadata.json"), recursive=True):
        # ... and so must the entry's other file: one complete JSON document with the documented keys
        try:
            import json as _json
            with open(p, "rb") as fh:
                v = _json.loads(fh.read().decode("utf-8"))
            ok = isinstance(v, dict) and "duration" in v and "input_args" in v
        except Exception as e:  # noqa
            ok, v = False, f"{type(e).__name__}: {e}"
        if not ok:
            bad.append([os.path.relpath(p, cache), str(v)[:120]])
    # 2) the cache must be usable: correct values, no exception
    err = None
    try:
        def user_cb(metadata):
            # a user-defined callback reading the documented metadata keys (as in joblib's own tests)
            return metadata["duration"] >= 0 and metadata["time"] > 0

        m, c = mem(expires_after(days=1) if phase == "recover_cb" else (user_cb if phase == "recover_udcb" else None))
        if phase.startswith("recover_shelve"):
            # recovery through references: call_and_shelve(x).get(), and check_call_in_cache must not promise what is not there
            expected = {x: c05funcs.f(x) for x in ARGS}
            runs = [0]
            orig = c05funcs.make

            def counting(tag, x):
                runs[0] += 1
                return orig(tag, x)

            c05funcs.make = counting
            for x in ARGS:
                promised = c.check_call_in_cache(x)
                before = runs[0]
                ref = c.call_and_shelve(x)
                v = ref.get()
                if v != expected[x]:
                    raise AssertionError(f"wrong value from call_and_shelve({x}).get(): {str(v)[:80]}")
                if promised and runs[0] != before:
                    raise AssertionError(f"check_call_in_cache({x}) answered True but the call executed the function")
                calls.append(x)
            c05funcs.make = orig
        check(c, ARGS)
        check(c, ARGS)
        assert c.check_call_in_cache(ARGS[0]) in (True, False)
    except BaseException as e:  # noqa
        import traceback
        err = dict(type=type(e).__name__, msg=str(e)[:200], where=[f"{os.path.basename(f.filename)}:{f.name}" for f in traceback.extract_tb(e.__traceback__)][-4:])
    with open(outfile, "w") as f:
        json.dump(dict(bad_final_files=bad, error=err, joblib=joblib.__file__), f)
    sys.exit(0)
with open(outfile, "w") as f:
    json.dump(dict(ok=True, calls=calls, joblib=joblib.__file__), f)
