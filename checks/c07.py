"""C07 - filter_args binds parameters exactly as Python does.

Oracle: the interpreter itself - the generated function is really called and reports its locals().
Exhaustive over all grammatical signatures with <= 5 (quick) / 6 (thorough)
parameters and all call shapes; calls Python rejects are outside the domain.
"""

import itertools
import warnings

from vlib import gen_sig

ID = "C07"
LEVEL = "exploration"
RULE = ("every grammatical signature over {pos-only, pos-or-kw, *args, kw-only, **kw} x "
        "{default, no default} (defaults truthy tuples, and None / 0 / '' / [] / False / () / 0.0 / {}) with <= 5 (quick) / 6 (thorough) parameters, as plain functions and as "
        "bound methods, times every call shape (0..n+2 positionals, every subset of nameable "
        "parameters by keyword, 0-2 surplus keywords sorting before / after the parameter names, keywords repeating positional-only names (first, last, both; 'self' for methods incl. 'def f(self, /, ...)'), methods also called with the bound instance itself as an argument); "
        "a case is one (signature, call shape, ignore list) that the interpreter accepts; "
        "distinct_nontrivial counts distinct (signature, call shape) pairs accepted by Python with "
        "at least one argument or default bound"
        " Every function with defaults is bound again after its defaults were replaced by tuples, then by values whose == / != have no truth value / are always true / never true.")
ASSUMPTIONS = [
    "what the real call of the same function binds (its locals()) is the definition of 'as Python binds'; a call raising TypeError is outside the domain",
    "functions are real defs compiled from generated source (exec), not mocks",
    "parameter values are distinct typed tuples, so any swap or misplacement changes the dict",
]
EXHAUSTIVE = {"quick": True, "thorough": True}
SHARDS = {"quick": 12, "thorough": 14}
FLOORS = {"quick": {"calls_of_methods_behind_a_functools_wraps_decorator": 5000, "calls_with_falsy_or_mutable_defaults": 10000, "contract_evaluations_in_repo_tests": 200, "accepted_calls": 20000, "ignore_lists_checked": 20000, "method_calls": 8000, "calls_after_a_change_of_defaults": 5000, "calls_with_defaults_of_unusual_equality": 5000, "calls_of_methods_without_an_explicit_self": 300},
          "thorough": {"contract_evaluations_in_repo_tests": 200, "accepted_calls": 100000, "ignore_lists_checked": 100000, "method_calls": 40000, "calls_after_a_change_of_defaults": 20000, "calls_of_methods_without_an_explicit_self": 1000}}


def cases(tier, seed):
    n = 5 if tier == "quick" else 6
    chunk = []
    for sig in gen_sig.signatures(n):
        for method in (False, True):
            if method and len(sig) > (5 if tier == "quick" else 6):
                continue
            chunk.append(dict(sig=[list(s) for s in sig], method=method, dstyle=0))
            if any(x[2] for x in sig):
                chunk.append(dict(sig=[list(s) for s in sig], method=method, dstyle=1))
            if method and sig and sig[0][0] == "V":
                # 'def f(*args, ...)' in a class: the instance arrives as the first surplus positional
                chunk.append(dict(sig=[list(s) for s in sig], method=True, dstyle=0, implicit_self=True))
            if method and not any(x[0] == "P" for x in sig):
                # 'def f(self, /, ...)': self positional-only although the method has no positional-only parameter of its own
                chunk.append(dict(sig=[list(s) for s in sig], method=True, dstyle=0, self_slash=True))
            if method and len(sig) <= 4:
                # a decorated method: the bound function is `wrapper(*args, **kwargs)` of a functools.wraps decorator (inspect.signature
                # follows __wrapped__: the reported signature is not the one of the bound function's own code object)
                chunk.append(dict(sig=[list(s) for s in sig], method=True, dstyle=0, wrapped=True))
            if len(chunk) >= 8:
                yield dict(group=chunk)
                chunk = []
    if chunk:
        yield dict(group=chunk)
    # extra workload: the repository's own tests with the same oracle installed as an icontract postcondition
    yield dict(contract=True)


DECO = ("import functools\n\n\ndef deco(fn):\n    @functools.wraps(fn)\n    def wrapper(*args, **kwargs):\n        return fn(*args, **kwargs)\n"
        "    return wrapper\n\n\n")


def build(sig, method, dstyle=0, self_slash=False, implicit_self=False, wrapped=False):
    src = gen_sig.source(sig, "f", method=method, dstyle=dstyle, body=gen_sig.LOCALS_BODY, self_slash=self_slash, implicit_self=implicit_self)
    ns = {}
    if method:
        exec((DECO + "class C:\n    @deco\n" + src) if wrapped else ("class C:\n" + src), ns)
        obj = ns["C"]()
        return obj.f, obj
    exec(src, ns)
    return ns["f"], None


def classify(sig, exp, got):
    p = gen_sig.predicates(sig)
    if p["posonly"]:
        return "posonly"
    if p["varargs_kwonly"]:
        return "varargs+kwonly"
    if p["default_not_suffix"]:
        return "default-not-suffix"
    return "other"


def run_case(case, ctx):
    if case.get("contract"):
        from vlib import harness
        state, r = harness.run_repo_tests_with_contracts(["joblib/test/test_func_inspect.py", "joblib/test/test_memory.py"])
        ctx.evaluated()
        if state is None:
            ctx.inconclusive("contract-run-failed", r["err"][-500:] + r["out"][-500:])
            return
        ctx.count("contract_evaluations_in_repo_tests", state["filter_args_in_domain"])
        for v in state["filter_args_violations"][:3]:
            ctx.violation("contract:filter_args-in-repo-tests", f"while the repository's tests ran: filter_args{v['sig']} args={v['args']} kwargs={v['kwargs']} "
                                                                 f"ignore={v['ignore']} gave {v['got']}, Python binds {v['expected']}", v)
        return
    from joblib.func_inspect import filter_args

    for one in case["group"]:
        run_one(one, ctx, filter_args)


def run_one(case, ctx, filter_args):
    sig = tuple(tuple(s) for s in case["sig"])
    method = case["method"]
    implicit = case.get("implicit_self", False)
    func, obj = build(sig, method, case.get("dstyle", 0), case.get("self_slash", False), implicit, case.get("wrapped", False))
    names = [s[1] for s in sig if s[0] in "PKO"]
    keys = names + (["*"] if any(s[0] == "V" for s in sig) else []) + \
        (["**"] if any(s[0] == "W" for s in sig) else [])
    if method and not implicit:
        keys = ["self"] + keys
    ign_lists = [()] + [c for r in (1, 2) for c in itertools.combinations(keys, r)]
    ign_i = 0
    reported = set()
    sstr = ("method " if method else "") + ("(behind a functools.wraps decorator) " if case.get("wrapped") else "") + ("(self, /) " if case.get("self_slash") else "") + ("(no explicit self) " if implicit else "") + gen_sig.sig_str(sig)
    for npos, kwnames in gen_sig.call_shapes(sig, method=method):
        args, kwargs = gen_sig.values_for(npos, kwnames)
        if method and npos and (npos + len(kwnames)) % 3 == 0:
            # value-dependent corner: the instance the method is bound to is itself passed as an argument
            args = (obj,) + args[1:]
            ctx.count("method_calls_passing_the_instance_itself")
        ctx.evaluated()
        exp = gen_sig.python_binding(func, args, kwargs)
        if exp is None:
            ctx.count("rejected_by_python")
            continue
        if method and not implicit:
            exp = dict(self=obj, **exp)
        if implicit:
            ctx.count("calls_of_methods_without_an_explicit_self")
        ctx.count("accepted_calls")
        if method:
            ctx.count("method_calls")
        if case.get("wrapped"):
            ctx.count("calls_of_methods_behind_a_functools_wraps_decorator")
        if args or kwargs or exp:
            ctx.sig((case["sig"], method, case.get("dstyle", 0), case.get("self_slash", False), case.get("wrapped", False), npos, kwnames))
        if any(k in kwargs for k in [x[1] for x in sig if x[0] == "P"] + ["self"]):
            ctx.count("accepted_calls_with_a_keyword_named_like_a_positional_only_parameter")
        if case.get("dstyle"):
            ctx.count("calls_with_falsy_or_mutable_defaults")
        # 1) no ignore list; 2) one rotating ignore list
        ign_i += 1
        for ign in ((), ign_lists[ign_i % len(ign_lists)]):
            if ign:
                ctx.count("ignore_lists_checked")
            want = {k: v for k, v in exp.items() if k not in ign}
            try:
                with warnings.catch_warnings():
                    warnings.simplefilter("ignore")
                    got = filter_args(func, list(ign), args, dict(kwargs))
                err = None
            except Exception as e:  # noqa
                got, err = None, f"{type(e).__name__}: {str(e)[:200]}"
            if err is None and got == want and list(got) is not None:
                continue
            key = classify(sig, want, got)
            if key == "other":
                key = "other:" + ("raises" if err else "wrong-binding")
            if key in reported:
                ctx.count("violating_calls_suppressed")
                continue
            reported.add(key)
            ctx.violation(
                key,
                f"filter_args({sstr}) called with args={args} kwargs={kwargs} ignore={list(ign)}: "
                f"expected {want!r}, got {err or repr(got)}",
                dict(signature=sstr, args=args, kwargs=kwargs, ignore=list(ign),
                     expected=repr(want), got=err or repr(got)))
    # the same function object again after its defaults were changed: whatever filter_args remembers about a function
    # must not outlive a change of its signature
    f0 = func.__func__ if method else func
    changed = False
    if f0.__defaults__:
        f0.__defaults__ = tuple(("dflt2", i) for i in range(len(f0.__defaults__)))
        changed = True
    if f0.__kwdefaults__:
        f0.__kwdefaults__ = {k: ("kwdflt2", k) for k in f0.__kwdefaults__}
        changed = True
    if changed:
        n = 0
        for npos, kwnames in gen_sig.call_shapes(sig, method=method):
            args, kwargs = gen_sig.values_for(npos, kwnames)
            exp = gen_sig.python_binding(func, args, kwargs)
            if exp is None:
                continue
            if method and not implicit:
                exp = dict(self=obj, **exp)
            ctx.evaluated()
            ctx.count("calls_after_a_change_of_defaults")
            try:
                with warnings.catch_warnings():
                    warnings.simplefilter("ignore")
                    got = filter_args(func, [], args, dict(kwargs))
                err = None
            except Exception as e:  # noqa
                got, err = None, f"{type(e).__name__}: {str(e)[:200]}"
            if err is not None or got != exp:
                ctx.violation("stale-signature-after-defaults-changed", f"filter_args({sstr}) after __defaults__ / __kwdefaults__ were reassigned, called with args={args} "
                                                                        f"kwargs={kwargs}: expected {exp!r}, got {err or repr(got)}", dict(signature=sstr, args=args, kwargs=kwargs))
                break
            n += 1
            if n >= 12:
                break
    # ... and once more with default VALUES whose equality is unusual (like arrays: comparisons without a truth value; like
    # unittest.mock.ANY: equal to everything; like nan: equal to nothing): a default is a value to be bound, never to be compared
    if changed:
        weird = [NoTruthValue(), EqualToEverything(), EqualToNothing()]
        if f0.__defaults__:
            f0.__defaults__ = tuple(weird[i % 3] for i in range(len(f0.__defaults__)))
        if f0.__kwdefaults__:
            f0.__kwdefaults__ = {k: weird[(i + 1) % 3] for i, k in enumerate(sorted(f0.__kwdefaults__))}
        n = 0
        for npos, kwnames in gen_sig.call_shapes(sig, method=method):
            args, kwargs = gen_sig.values_for(npos, kwnames)
            exp = gen_sig.python_binding(func, args, kwargs)
            if exp is None:
                continue
            if method and not implicit:
                exp = dict(self=obj, **exp)
            ctx.evaluated()
            ctx.count("calls_with_defaults_of_unusual_equality")
            try:
                with warnings.catch_warnings():
                    warnings.simplefilter("ignore")
                    got = filter_args(func, [], args, dict(kwargs))
                err = None
            except Exception as e:  # noqa
                got, err = None, f"{type(e).__name__}: {str(e)[:200]}"
            same = err is None and list(got) == list(exp) or (err is None and set(got) == set(exp))
            same = same and all(got[k] is exp[k] or (type(exp[k]) not in (NoTruthValue, EqualToEverything, EqualToNothing) and got[k] == exp[k]) for k in exp)
            if not same:
                ctx.violation("default-value-with-unusual-equality", f"filter_args({sstr}) with defaults {f0.__defaults__} / {f0.__kwdefaults__}, called with args={args} "
                                                                     f"kwargs={kwargs}: expected {exp!r}, got {err or repr(got)}", dict(signature=sstr, args=repr(args), kwargs=repr(kwargs)))
                break
            n += 1
            if n >= 12:
                break
    if len(ctx.samples) < 3:
        ctx.sample(dict(signature=sstr, shapes=len(list(gen_sig.call_shapes(sig)))))


class _NoTruth:
    def __bool__(self):
        raise ValueError("The truth value of a comparison with more than one element is ambiguous")


class NoTruthValue:
    """compares element-wise, like an array: the result of == / != has no truth value"""
    __hash__ = object.__hash__

    def __eq__(self, other):
        return _NoTruth()

    def __ne__(self, other):
        return _NoTruth()

    def __repr__(self):
        return "NoTruthValue()"


class EqualToEverything:
    __hash__ = object.__hash__

    def __eq__(self, other):
        return True

    def __ne__(self, other):
        return False

    def __repr__(self):
        return "EqualToEverything()"


class EqualToNothing:
    __hash__ = object.__hash__

    def __eq__(self, other):
        return False

    def __ne__(self, other):
        return True

    def __repr__(self):
        return "EqualToNothing()"
