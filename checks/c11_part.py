"""participant of C11. usage: c11_part.py <role-json> <root> <outfile>

role: {"ops": [["call", x] | ["reduce", items_limit] | ["clear"] | ["fclear"] ...], "compress": bool, "threads": n}
Every operation's outcome is recorded: value ok / wrong / exception (type, innermost joblib frame).
"""
import json
import os
import sys
import threading
import traceback
import warnings

role = json.loads(sys.argv[1])
root, outfile = sys.argv[2], sys.argv[3]
sys.path.insert(0, os.path.join(os.path.dirname(os.path.abspath(outfile)), role.get("version", "v1")))
warnings.simplefilter("ignore")

import joblib  # noqa: E402
from joblib import Memory  # noqa: E402

import c11funcs  # noqa: E402

mem = Memory(root, verbose=0, compress=role.get("compress", False), mmap_mode=role.get("mmap_mode"))
validation = {"expired": (lambda metadata: False), "valid": (lambda metadata: True), "expires_after": joblib.expires_after(seconds=0)}.get(role.get("validation"))
cached = mem.cache(c11funcs.f, cache_validation_callback=validation)
results = []
lock = threading.Lock()


def joblib_frame(tb):
    frames = [f for f in traceback.extract_tb(tb) if "/joblib/" in f.filename]
    if not frames:
        return "?"
    f = frames[-1]
    return f"{os.path.basename(f.filename)}:{f.name}"


def run_ops(ops, who):
    for op in ops:
        rec = dict(op=op, who=who)
        try:
            if op[0] == "call":
                v = cached(op[1])
                rec["ok"] = c11funcs.valid(v, op[1])
                if not rec["ok"]:
                    rec["value"] = str(v)[:100]
            elif op[0] == "reduce":
                mem.reduce_size(items_limit=op[1])
                rec["ok"] = True
            elif op[0] == "clear":
                mem.clear(warn=False)
                rec["ok"] = True
            elif op[0] == "fclear":
                cached.clear(warn=False)
                rec["ok"] = True
            elif op[0] == "observe":
                # read-only observer: whatever is visible under a final name must be one complete valid result
                import glob
                bad = []
                for path in glob.glob(os.path.join(root, "**", "output.pkl"), recursive=True):
                    try:
                        v = joblib.load(path)
                        if not c11funcs.valid(v):
                            bad.append([os.path.basename(os.path.dirname(path))[:8], str(v)[:80]])
                    except FileNotFoundError:
                        pass
                    except BaseException as e:  # noqa
                        bad.append([os.path.basename(os.path.dirname(path))[:8], f"{type(e).__name__}: {str(e)[:80]}"])
                rec["ok"] = not bad
                rec["bad_files"] = bad
            elif op[0] == "shelve":
                r = cached.call_and_shelve(op[1])
                rec["ok"] = True
        except BaseException as e:  # noqa
            rec["exc"] = type(e).__name__
            rec["msg"] = str(e)[:160]
            rec["frame"] = joblib_frame(e.__traceback__)
            rec["chain"] = [f"{os.path.basename(f.filename)}:{f.name}" for f in traceback.extract_tb(e.__traceback__)][-5:]
        with lock:
            results.append(rec)


# set-up finished: announce it with a watched no-op (the coordinator holds us here until everybody is ready)
try:
    os.stat(os.path.join(root, "__READY__"))
except OSError:
    pass

nthreads = role.get("threads", 1)
if nthreads == 1:
    run_ops(role["ops"], 0)
else:
    ths = [threading.Thread(target=run_ops, args=(role["ops"][i::nthreads], i)) for i in range(nthreads)]
    for t in ths:
        t.start()
    for t in ths:
        t.join()
with open(outfile + ".tmp", "w") as f:
    json.dump(dict(results=results, joblib=joblib.__file__), f)
os.replace(outfile + ".tmp", outfile)
