"""child of C04: a failing call whose sibling tasks never complete, then the same object is called again.

usage: c04_clog.py cfg.json out.json
"""
import faulthandler
import json
import os
import signal
import sys
import time
import warnings

faulthandler.register(signal.SIGUSR1, all_threads=True)

import joblib  # noqa: E402
from joblib import Parallel, delayed  # noqa: E402

from vlib.c04_tasks import Boom, BoomBase, clog_task, task  # noqa: E402

cfg = json.load(open(sys.argv[1]))
progress = sys.argv[2] + ".progress"


def note(**kw):
    with open(progress, "a") as f:
        f.write(json.dumps(kw) + "\n")


def main():
    J = cfg["J"]
    kw = dict(n_jobs=J, backend=cfg["backend"], batch_size=cfg["b"], pre_dispatch=cfg["pd"], return_as=cfg["ra"])
    if cfg.get("timeout"):
        kw["timeout"] = cfg["timeout"]
    p = Parallel(**kw)
    calls = []

    def cycle(k):
        tag = f"c{k}"
        o = {}
        note(ev="call_start", call=k, kind="fail")
        t0 = time.monotonic()
        try:
            with warnings.catch_warnings():
                warnings.simplefilter("ignore")
                out = p(delayed(clog_task)(i, tag, cfg["exc"] if i == cfg["fail_at"] else None, cfg["stuck_s"]) for i in range(cfg["N"]))
                o["out"] = [list(x) for x in out]
        except BaseException as e:  # noqa
            o["exc_type"] = type(e).__name__
            o["exc_args"] = [str(a) if not isinstance(a, (str, int)) else a for a in e.args]
        o["dur"] = time.monotonic() - t0
        note(ev="call_end", call=k)
        calls.append(o)
        o = {}
        note(ev="call_start", call=k, kind="ok")
        t0 = time.monotonic()
        try:
            with warnings.catch_warnings():
                warnings.simplefilter("ignore")
                out = p(delayed(task)(i, tag + "ok", False, 0.002) for i in range(cfg["N2"]))
                o["out"] = [list(x) for x in out]
        except BaseException as e:  # noqa
            o["exc_type"] = type(e).__name__
            o["exc_args"] = [str(a)[:100] for a in e.args]
        o["dur"] = time.monotonic() - t0
        note(ev="call_end", call=k)
        calls.append(o)

    if cfg["managed"]:
        with p:
            for k in range(cfg["cycles"]):
                cycle(k)
    else:
        for k in range(cfg["cycles"]):
            cycle(k)
    with open(sys.argv[2] + ".tmp", "w") as f:
        json.dump(dict(calls=calls, joblib=joblib.__file__), f)
    os.replace(sys.argv[2] + ".tmp", sys.argv[2])
    sys.stdout.flush()
    os._exit(0)


if __name__ == "__main__":
    main()
