"""child of C04: a fail/ok history on one Parallel object on a real backend"""
import faulthandler
import json
import os
import signal
import sys
import threading
import warnings

faulthandler.register(signal.SIGUSR1, all_threads=True)

import joblib  # noqa: E402
from joblib import Parallel, delayed  # noqa: E402

from vlib.c04_tasks import EXC, Boom, PicklingRaisesIndexError, init_worker, tagged_task, transport_task  # noqa: E402


def children():
    me = os.getpid()
    n = 0
    for d in os.listdir("/proc"):
        if d.isdigit():
            try:
                with open(f"/proc/{d}/stat") as f:
                    s = f.read()
                if int(s[s.rindex(")") + 2:].split()[1]) == me:
                    n += 1
            except (OSError, ValueError):
                pass
    return n


def main():
    cfg = json.load(open(sys.argv[1]))
    kw = dict(n_jobs=cfg["J"], backend=cfg["backend"], batch_size=cfg["b"], pre_dispatch=cfg["pd"], return_as=cfg["ra"], verbose=cfg.get("verbose", 0))
    if cfg["backend"] in ("loky", "multiprocessing"):
        # options given to Parallel itself must still be in force after a failed call re-created the workers
        kw.update(initializer=init_worker, initargs=("W",))
    p = Parallel(**kw)
    calls = []
    base = {}

    class RaisingIterable:
        def __init__(self, exc):
            self.exc = exc

        def __iter__(self):
            raise self.exc

    class RaisingLen(RaisingIterable):
        def __len__(self):
            raise self.exc

        def __iter__(self):
            return iter(())

    def gen(tag, c):
        for i in range(c["n"]):
            if c["kind"] == "iter" and i == c["iter_fail_at"]:
                raise EXC[c.get("exc", "Boom")]("iter", tag, i)
            if c["kind"] == "transport" and i in c["fail_at"]:
                yield delayed(transport_task)(i, tag, c["how"], threading.Lock() if c["how"] == "unpicklable-argument" else
                                              (PicklingRaisesIndexError() if c["how"] == "argument-pickling-raises-IndexError" else None))
                continue
            yield delayed(tagged_task)(i, tag, c.get("exc", "Boom") if c["kind"] == "task" and i in c["fail_at"] else False, 0.002 if i % 3 == 0 else 0)

    import time

    def note(ev, k):
        with open(sys.argv[2] + ".progress", "a") as f:
            f.write(json.dumps(dict(ev=ev, call=k, t=time.monotonic())) + "\n")

    def run():
        for k, c in enumerate(cfg["history"]):
            tag = f"c{k}"
            o = {}
            note("start", k)
            try:
                with warnings.catch_warnings():
                    warnings.simplefilter("ignore")
                    o["out"] = list(p((RaisingLen if c.get("where") == "__len__" else RaisingIterable)(Boom("iter", tag, -1)) if c["kind"] == "iterinit" else gen(tag, c)))
            except BaseException as e:  # noqa
                o["exc_type"] = type(e).__name__
                o["exc_args"] = list(e.args) if type(e) in EXC.values() else [str(e)[:200]]
            calls.append(o)
            note("end", k)
            if k == 1:
                base["threads"], base["children"] = threading.active_count(), children()

    if cfg["managed"]:
        with p:
            run()
            growth = dict(threads=threading.active_count() - base.get("threads", 0), children=children() - base.get("children", 0))
    else:
        run()
        growth = dict(threads=threading.active_count() - base.get("threads", 0), children=children() - base.get("children", 0))
    with open(sys.argv[2] + ".tmp", "w") as f:
        json.dump(dict(calls=calls, growth=growth, joblib=joblib.__file__), f)
    os.replace(sys.argv[2] + ".tmp", sys.argv[2])


if __name__ == "__main__":
    main()
