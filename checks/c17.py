"""C17 - parallel_config / parallel_backend: scoping, thread-locality, precedence.

Monitor: programs of nested contexts are *executed* (in 1-3 threads running in
lock-step through barriers); after every enter/exit step each thread observes
get_active_backend() and a freshly constructed Parallel(**explicit) and
compares them with a reference resolution of its own stack of settings.
"""

import threading
import warnings

from vlib import harness

ID = "C17"
LEVEL = "exploration"
RULE = ("a case is a program: 1-3 threads, each a nesting (depth <= 4) of parallel_config/parallel_backend blocks setting "
        "subsets of {backend,n_jobs,verbose,prefer,require,max_nbytes,mmap_mode,temp_folder}, left by fall-through or by "
        "exception, stepped in lock-step; after every step every thread observes get_active_backend() and Parallel(**explicit) "
        "for several explicit-argument subsets; depth <= 2 x single-key settings are enumerated exhaustively, the rest sampled; "
        "distinct_nontrivial counts distinct (stack of settings, explicit arguments) observations with a non-empty stack "
        "or non-empty explicit arguments"
        " Backend domain includes custom backends declaring uses_threads only / no flag; an effects layer makes 4-10 real loky / multiprocessing calls per sequence under changing temp_folder / max_nbytes / mmap_mode scopes and checks where and how the task's argument is mapped.")
ASSUMPTIONS = [
    "reference resolution: explicit > innermost context that set the key > ... > default, per key",
    "carve-out asserted by the repository's own suite: when a context's explicitly chosen backend is replaced by the "
    "thread fallback, the context's n_jobs does not apply (n_jobs == 1 unless passed explicitly); where the statement "
    "does not decide (n_jobs set by another context than the replaced backend, explicit backend argument on top of a "
    "replaced context backend) both values are accepted",
    "LIFO with-usage only; only construction is observed (no workers are started)",
    "values come from small domains; backend=None passed explicitly to a context is outside the domain",
]
SHARDS = {"quick": 12, "thorough": 14}
FLOORS = {"quick": {"constructors_that_failed_and_were_survived": 300, "observations": 20000, "thread_interleaved_observations": 3000, "exception_exits": 300, "contexts_created_without_with_inside_a_block": 300, "blocks_left_through_generator_close": 150, "effect_observations_with_a_memmapped_argument": 20},
          "thorough": {"observations": 600000, "thread_interleaved_observations": 100000, "exception_exits": 10000, "contexts_created_without_with_inside_a_block": 8000, "blocks_left_through_generator_close": 4000}}

KEYS = ["backend", "n_jobs", "verbose", "prefer", "require", "max_nbytes", "mmap_mode", "temp_folder"]
DOM = {"backend": ["threading", "loky", "multiprocessing", "custom_threads", "custom_procs", "custom_threads_noflag", "custom_noflags"],
       "n_jobs": [1, 2, 3, -1, None], "verbose": [0, 5, 60, 100],
       "prefer": ["threads", "processes", None], "require": ["sharedmem", None],
       "max_nbytes": [None, 100, "1K", "2M"], "mmap_mode": ["r", "c", "r+", None],
       "temp_folder": [None, "/nonexistent/x", "/nonexistent/y"]}
DEFAULT = {"backend": None, "n_jobs": None, "verbose": 0, "prefer": None, "require": None,
           "max_nbytes": "1M", "mmap_mode": "r", "temp_folder": None}
UNSET = "<unset>"
# (a backend that does not say whether it shares memory does not: custom_threads_noflag declares uses_threads only,
# custom_noflags declares neither flag)
SHAREDMEM = {"threading": True, "loky": False, "multiprocessing": False, "custom_threads": True, "custom_procs": False, "custom_threads_noflag": False, "custom_noflags": False}
CLSNAME = {"threading": "ThreadingBackend", "loky": "LokyBackend", "multiprocessing": "MultiprocessingBackend",
           "custom_threads": "CustomThreads", "custom_procs": "CustomProcs", "custom_threads_noflag": "CustomThreadsNoFlag", "custom_noflags": "CustomNoFlags"}


class Boom(Exception):
    pass


_customs = {}


def backends():
    if not _customs:
        from joblib._parallel_backends import ParallelBackendBase, ThreadingBackend

        class CustomThreads(ThreadingBackend):
            pass

        class CustomProcs(ParallelBackendBase):
            supports_sharedmem = False
            uses_threads = False

            def effective_n_jobs(self, n_jobs):
                return n_jobs

            def submit(self, func, callback=None):
                raise NotImplementedError

        class CustomThreadsNoFlag(ParallelBackendBase):
            """written against the documented minimum: runs tasks on threads, says so, and says nothing about shared memory"""
            uses_threads = True

            def effective_n_jobs(self, n_jobs):
                return n_jobs

            def submit(self, func, callback=None):
                raise NotImplementedError

        class CustomNoFlags(ParallelBackendBase):
            def effective_n_jobs(self, n_jobs):
                return n_jobs

            def submit(self, func, callback=None):
                raise NotImplementedError

        _customs["custom_threads"] = CustomThreads
        _customs["custom_procs"] = CustomProcs
        _customs["custom_threads_noflag"] = CustomThreadsNoFlag
        _customs["custom_noflags"] = CustomNoFlags
    return _customs


def mk_backend(name):
    if name.startswith("custom_"):
        return backends()[name]()
    return name


def memstr(v):
    if isinstance(v, str):
        return int({"K": 1024, "M": 1024 ** 2}[v[-1]] * float(v[:-1]))
    return v


def model(stack, explicit, for_parallel=True):
    """stack: list of dicts outermost first (each: key -> value, plus '_api');
    returns 'err' or dict of allowed observables (n_jobs: set of allowed)."""
    def ctx(k):
        for i in range(len(stack) - 1, -1, -1):
            if k in stack[i]:
                return stack[i][k], i
        return UNSET, None

    def res(k):
        if k in explicit and not (k == "n_jobs" and explicit[k] is None):
            return explicit[k]
        c, _ = ctx(k)
        return DEFAULT[k] if c is UNSET else c

    prefer, require, verbose = res("prefer"), res("require"), res("verbose")
    if prefer == "processes" and require == "sharedmem":
        return "err"
    cb, cb_level = ctx("backend")
    cn, cn_level = ctx("n_jobs")
    ctx_n = None if cn is UNSET else cn
    allowed_ctx_n = {ctx_n}
    if cb is not UNSET:
        backend = cb
        if require == "sharedmem" and not SHAREDMEM[cb]:
            backend = "threading"
            # carve-out (asserted by test_backend_hinting_and_constraints)
            allowed_ctx_n = {None} if (cn_level is None or cn_level == cb_level) else {None, ctx_n}
    else:
        backend = "loky"
        if require == "sharedmem" or prefer == "threads":
            backend = "threading"
    eb = explicit.get("backend")
    if eb is not None:
        if cb is not UNSET and require == "sharedmem" and not SHAREDMEM[cb]:
            allowed_ctx_n = {None, ctx_n}
        backend = eb
        if require == "sharedmem" and not SHAREDMEM[eb]:
            return "err"
    en = explicit.get("n_jobs")
    if en is not None:
        n_jobs = {en}
    else:
        n_jobs = {1 if a is None else a for a in allowed_ctx_n}
    out = {"backend": CLSNAME[backend], "n_jobs": n_jobs}
    if for_parallel:
        out.update({"verbose": verbose, "kw_verbose": max(0, verbose - 50), "max_nbytes": memstr(res("max_nbytes")),
                    "mmap_mode": res("mmap_mode"), "temp_folder": res("temp_folder"),
                    "kw_prefer": prefer, "kw_require": require})
    return out


def observe_parallel(explicit, insts):
    from joblib import Parallel
    kw = dict(explicit)
    if "backend" in kw:
        kw["backend"] = insts.get(("explicit", kw["backend"])) or mk_backend(kw["backend"])
    try:
        with warnings.catch_warnings():
            warnings.simplefilter("ignore")
            p = Parallel(**kw)
    except ValueError:
        return "err"
    k = p._backend_kwargs
    return {"backend": type(p._backend).__name__, "n_jobs": p.n_jobs, "verbose": p.verbose,
            "kw_verbose": k["verbose"], "max_nbytes": k["max_nbytes"], "mmap_mode": k["mmap_mode"],
            "temp_folder": k["temp_folder"], "kw_prefer": k["prefer"], "kw_require": k["require"]}


def observe_active():
    from joblib.parallel import get_active_backend
    try:
        with warnings.catch_warnings():
            warnings.simplefilter("ignore")
            b, n = get_active_backend()
    except ValueError:
        return "err"
    return {"backend": type(b).__name__, "n_jobs": 1 if n is None else n}


def agree(got, exp):
    if got == "err" or exp == "err":
        return got == exp
    for k, v in exp.items():
        if k == "n_jobs":
            if got[k] not in v:
                return False
        elif got[k] != v:
            return False
    return True


def classify(stack, explicit, got, exp):
    """mechanism key from the witness alone"""
    def ctxset(k):
        return any(k in d for d in stack)
    if exp == "err" and got != "err":
        if explicit.get("backend") is not None and "require" not in explicit:
            return "context-require-ignored-by-explicit-backend"
        return "inconsistent-settings-accepted"
    if got == "err":
        return "unexpected-ValueError"
    diff = sorted(k for k in exp if (got[k] not in exp[k] if k == "n_jobs" else got[k] != exp[k]))
    if diff == ["n_jobs"] and got["n_jobs"] == 1 and not ctxset("backend") and ctxset("n_jobs") \
            and got["backend"] == "ThreadingBackend":
        return "context-n_jobs-dropped-by-thread-fallback-without-context-backend"
    return "resolution:" + ",".join(diff)


# ---------------------------------------------------------------------------


def rand_cfg(rng, maxk, api_ok=True):
    ks = rng.sample(KEYS, rng.randint(0, maxk))
    cfg = {k: rng.choice(DOM[k]) for k in ks}
    if api_ok and "backend" in cfg and rng.random() < 0.25:
        # old API: parallel_backend(backend, n_jobs=-1)
        cfg = {"backend": cfg["backend"], "_api": "parallel_backend"}
        if rng.random() < 0.5:
            cfg["n_jobs"] = rng.choice([1, 2, 3])
    return cfg


def rand_explicits(rng, k=3):
    out = [{}]
    for _ in range(k):
        ks = rng.sample(KEYS, rng.randint(1, 3))
        e = {kk: rng.choice(DOM[kk]) for kk in ks}
        out.append(e)
    return out


def cases(tier, seed):
    # exhaustive part: depth <= 2, one key per context, every value, explicit one key/none
    singles = [{k: v} for k in KEYS for v in DOM[k]]
    i = 0
    chunk = []
    for a in singles:
        chunk.append([[a]])
        for b in singles:
            if tier == "thorough" or (KEYS.index(next(iter(a))) + KEYS.index(next(iter(b)))) % 2 == 0:
                chunk.append([[a, b]])
        if len(chunk) >= 60:
            yield dict(kind="enum", programs=chunk, i=i)
            i += 1
            chunk = []
    if chunk:
        yield dict(kind="enum", programs=chunk, i=i)
    n = 900 if tier == "quick" else 30000
    for j in range(n):
        yield dict(kind="random", i=j)
    for j in range(8 if tier == "quick" else 80):
        yield dict(kind="effects", i=j)


def effective(cfg):
    d = {k: v for k, v in cfg.items() if not k.startswith("_")}
    if cfg.get("_api") == "parallel_backend" and "n_jobs" not in d:
        d["n_jobs"] = -1
    return d


def enter_cm(cfg, insts, tid, depth):
    from joblib import parallel_backend, parallel_config
    kw = {k: v for k, v in cfg.items() if not k.startswith("_")}
    if "backend" in kw:
        b = mk_backend(kw["backend"])
        insts[(tid, depth)] = b
        kw["backend"] = b
    with warnings.catch_warnings():
        warnings.simplefilter("ignore")
        if cfg.get("_api") == "parallel_backend":
            return parallel_backend(kw.pop("backend"), **kw)
        return parallel_config(**kw)


def run_thread(tid, nesting, explicits, exit_by_exc, barrier, ctx, out, lock):
    """nesting: list of cfg dicts; steps: enter each, observe, exit each (LIFO)"""
    insts = {}
    stack = []

    def observe(step):
        try:
            barrier.wait(timeout=30)
        except threading.BrokenBarrierError:
            pass
        for e in explicits:
            got, exp = observe_parallel(e, insts), model(stack, e)
            with lock:
                out["obs"] += 1
                if stack or e:
                    out["sigs"].append(([dict(d) for d in stack], dict(e)))
                if not agree(got, exp):
                    out["viol"].append((classify(stack, e, got, exp), list(stack), e, got, exp, step, tid))
        got, exp = observe_active(), model(stack, {}, for_parallel=False)
        with lock:
            out["obs"] += 1
            if not agree(got, exp):
                out["viol"].append(("get_active_backend:" + classify(stack, {}, got, exp), list(stack), {}, got, exp, step, tid))

    def failing_ctor(bad):
        from joblib import parallel_backend, parallel_config
        import multiprocessing
        b = {"None": None, "mp-context": multiprocessing.get_context(), "object": object(), "unknown-name": "no-such-backend",
             "threads-in-threading": "threading"}[bad["_bad"]]
        kw = dict(n_jobs=bad["n_jobs"], verbose=bad["verbose"]) if bad["_api"] == "parallel_config" else dict(n_jobs=bad["n_jobs"])
        if bad["_bad"] == "threads-in-threading":
            kw["inner_max_num_threads"] = 2
        try:
            with warnings.catch_warnings():
                warnings.simplefilter("ignore")
                cm = (parallel_config if bad["_api"] == "parallel_config" else parallel_backend)(b, **kw)
        except Exception:  # noqa
            with lock:
                out["failed_ctors"] += 1
            return
        # the constructor accepted it after all: it is active now (constructors activate); undo it the documented way
        cm.unregister()
        with lock:
            out["accepted_ctors"] += 1

    def rec(i):
        observe(("before-enter", i))
        if i == len(nesting):
            return
        cfg = nesting[i]
        if cfg.get("_failing_ctor_before"):
            failing_ctor(cfg["_failing_ctor_before"])
            observe(("after-failed-constructor", i))
        if cfg.get("_skip"):
            return
        try:
            cm = enter_cm(cfg, insts, tid, i)
        except ValueError:
            # constructing the context with inconsistent settings may raise;
            # nothing was entered
            with lock:
                out["ctor_err"] += 1
            return
        if cfg.get("_in_generator"):
            # the block lives in a generator function and is left because the generator is closed early (GeneratorExit)
            def body():
                with cm:
                    yield
            stack.append(effective(cfg))
            g = body()
            next(g)
            rec(i + 1)
            stack.pop()
            g.close()
            with lock:
                out["generator_exits"] += 1
            observe(("after-generator-close", i))
            return
        try:
            with cm:
                stack.append(effective(cfg))
                leaked = None
                if cfg.get("_inner"):
                    # a context object created inside the block without `with` (the constructor activates it):
                    # unregistered explicitly before the block ends, or never - the block's exit must undo it all the same
                    try:
                        leaked = enter_cm(cfg["_inner"], insts, tid, 10 + i)
                        stack.append(effective(cfg["_inner"]))
                        with lock:
                            out["inner_nowith"] += 1
                    except ValueError:
                        with lock:
                            out["ctor_err"] += 1
                rec(i + 1)
                if leaked is not None:
                    if cfg.get("_inner_unregister"):
                        leaked.unregister()
                        stack.pop()
                        observe(("after-unregister", i))
                    else:
                        stack.pop()     # undone by the enclosing block's exit, observed right after it
                stack.pop()
                if exit_by_exc[i]:
                    with lock:
                        out["exc_exits"] += 1
                    raise Boom(i)
        except Boom:
            pass
        observe(("after-exit", i))

    try:
        rec(0)
    finally:
        try:
            barrier.abort()
        except Exception:  # noqa
            pass


def run_program(threads_spec, ctx):
    lock = threading.Lock()
    out = dict(obs=0, viol=[], sigs=[], exc_exits=0, ctor_err=0, inner_nowith=0, generator_exits=0, failed_ctors=0, accepted_ctors=0)
    nthreads = len(threads_spec)
    barrier = threading.Barrier(nthreads)
    ths = []
    for tid, (nesting, explicits, exc) in enumerate(threads_spec):
        t = threading.Thread(target=run_thread, args=(tid, nesting, explicits, exc, barrier, ctx, out, lock))
        ths.append(t)
    for t in ths:
        t.start()
    for t in ths:
        t.join(60)
    ctx.evaluated()
    ctx.count("observations", out["obs"])
    if nthreads > 1:
        ctx.count("thread_interleaved_observations", out["obs"])
    ctx.count("exception_exits", out["exc_exits"])
    ctx.count("contexts_created_without_with_inside_a_block", out["inner_nowith"])
    ctx.count("blocks_left_through_generator_close", out["generator_exits"])
    ctx.count("context_ctor_valueerror", out["ctor_err"])
    ctx.count("constructors_that_failed_and_were_survived", out["failed_ctors"])
    ctx.count("constructors_expected_to_fail_that_were_accepted", out["accepted_ctors"])
    for s in out["sigs"]:
        ctx.sig(s)
    seen = set()
    for key, stack, e, got, exp, step, tid in out["viol"]:
        if key in seen:
            continue
        seen.add(key)
        ctx.violation(key, f"stack={stack} explicit={e} step={step} thread={tid}/{nthreads}: observed {got}, reference {exp}",
                      dict(stack=stack, explicit=e, got=got, expected=repr(exp), threads=nthreads))
    # main thread must never see anything (it entered nothing)
    got = observe_active()
    if not agree(got, model([], {}, for_parallel=False)):
        ctx.violation("leak-into-other-thread", f"main thread observes {got} after program", dict(got=got))


def run_effects(case, ctx):
    """what the workers really get: a sequence of calls of one process (the loky executor is reused from call to call) under
    changing temp_folder / max_nbytes / mmap_mode settings - the argument of each call must be mapped from the folder, and
    with the mode, that the settings in force for THAT call resolve to"""
    import json
    import os
    import shutil
    rng = harness.rng_for(ctx.seed, ID, "effects", case["i"])
    harness.ensure_deps("numpy")
    d = harness.mkscratch("vjl-c17e-")
    try:
        folders = {"A": os.path.join(d, "tfA"), "B": os.path.join(d, "tfB")}
        for f in folders.values():
            os.makedirs(f)
        dom = {"temp_folder": ["A", "B"], "max_nbytes": [1000, 1000, None], "mmap_mode": ["r", "c"]}
        steps = []
        for _ in range(rng.randint(4, 7)):
            ctxs = [{k: rng.choice(dom[k]) for k in rng.sample(sorted(dom), rng.randint(1, 2))} for _ in range(rng.choice([0, 1, 1, 2]))]
            explicit = {k: rng.choice(dom[k]) for k in rng.sample(sorted(dom), rng.choice([0, 1, 1, 2]))}
            steps.append(dict(contexts=ctxs, explicit=explicit, backend=rng.choice(["loky", "loky", "loky", "multiprocessing"])))
        if case["i"] % 2 == 0:
            # directed: the same executor arguments three times in a row (the executor is reused), only the folder's scope changes
            x, y = rng.sample(["A", "B"], 2)
            steps = [dict(contexts=[{"temp_folder": x, "max_nbytes": 1000}], explicit={}, backend="loky"),
                     dict(contexts=[], explicit={"max_nbytes": 1000}, backend="loky"),
                     dict(contexts=[{"max_nbytes": 1000}], explicit={"temp_folder": y}, backend="loky")] + steps
        cf, of = os.path.join(d, "cfg.json"), os.path.join(d, "out.json")
        with open(cf, "w") as f:
            json.dump(dict(steps=steps, folders=folders), f)
        r = harness.run_py([os.path.join(harness.VERIF, "checks", "c17_effects.py"), cf, of], timeout=180, result_file=of, env_extra={"VERIF_USE_DEPS": "1"})
        ctx.evaluated()
        if not r["result"]:
            ctx.inconclusive("effects-child-failed", dict(steps=steps, err=r["err"][-500:]))
            return
        for k, (step, o) in enumerate(zip(steps, r["result"]["steps"])):
            def res(key, default):
                if key in step["explicit"]:
                    return step["explicit"][key]
                for c in reversed(step["contexts"]):
                    if key in c:
                        return c[key]
                return default
            tf, mx, mode = res("temp_folder", None), res("max_nbytes", "1M"), res("mmap_mode", "r")
            desc = dict(step=k, steps=steps[:k + 1], resolved=dict(temp_folder=tf, max_nbytes=mx, mmap_mode=mode))
            ctx.count("effect_observations")
            if "exc" in o:
                ctx.violation("effects:call-raised", f"step {k} raised {o['exc']}; {desc}", desc)
                return
            for fn, m, total in o["res"]:
                where = next((n for n, p in folders.items() if fn and fn.startswith(p + os.sep)), None if fn is None else "elsewhere")
                if total != 12497500.0:
                    ctx.violation("effects:wrong-values", f"step {k}: the task saw other values (sum {total}); {desc}", desc)
                    return
                if mx != 1000:
                    if fn is not None:
                        ctx.violation("effects:max_nbytes", f"step {k}: max_nbytes resolves to {mx!r} but the 40 KB argument was memory-mapped from {where}; {desc}", desc)
                        return
                    continue
                ctx.count("effect_observations_with_a_memmapped_argument")
                want = tf if tf is not None else "elsewhere"
                if where != want:
                    ctx.violation("effects:temp_folder", f"step {k}: temp_folder resolves to {tf!r} but the worker's argument is mapped from {where!r} ({fn}); {desc}", desc)
                    return
                if m != mode:
                    ctx.violation("effects:mmap_mode", f"step {k}: mmap_mode resolves to {mode!r} but the worker's argument is mapped with mode {m!r}; {desc}", desc)
                    return
        ctx.sig(("effects", json.dumps(steps, sort_keys=True)))
    finally:
        shutil.rmtree(d, ignore_errors=True)


def run_case(case, ctx):
    if case["kind"] == "effects":
        return run_effects(case, ctx)
    backends()
    if case["kind"] == "enum":
        rng = harness.rng_for(ctx.seed, ID, "enum", case["i"])
        for prog in case["programs"]:
            nesting = prog[0]
            explicits = [{}] + [{k: rng.choice(DOM[k])} for k in rng.sample(KEYS, 3)]
            run_program([(nesting, explicits, [False] * len(nesting))], ctx)
        return
    rng = harness.rng_for(ctx.seed, ID, "rand", case["i"])
    nthreads = rng.choice([1, 2, 2, 3])
    spec = []
    for _ in range(nthreads):
        depth = rng.randint(0, 4)
        nesting = [rand_cfg(rng, 3) for _ in range(depth)]
        for cfg in nesting:
            if rng.random() < 0.15:
                cfg["_in_generator"] = True
                continue
            if rng.random() < 0.2:
                cfg["_inner"] = rand_cfg(rng, 3)
                cfg["_inner_unregister"] = rng.random() < 0.5
        # a context whose CONSTRUCTOR fails (a backend object joblib cannot use, an unknown name, contradictory settings), tried
        # before a block is entered or at the innermost level: the caller survives the error, nothing may have changed
        rng3 = harness.rng_for(ctx.seed, ID, "failed", case["i"], len(spec))
        if rng3.random() < 0.5:
            bad = dict(_bad=rng3.choice(["None", "mp-context", "object", "unknown-name", "threads-in-threading"]), n_jobs=rng3.choice([2, 3, 5]), verbose=rng3.choice([0, 11]),
                       _api=rng3.choice(["parallel_config", "parallel_config", "parallel_backend"]))
            if nesting:
                rng3.choice(nesting)["_failing_ctor_before"] = bad
            else:
                nesting.append({"_failing_ctor_before": bad, "_skip": True})
        spec.append((nesting, rand_explicits(rng), [rng.random() < 0.3 for _ in nesting]))
    run_program(spec, ctx)
    if case["i"] % 211 == 0:
        ctx.sample(dict(threads=[dict(nesting=n, explicit_args=e, exit_by_exception=x) for n, e, x in spec]))
