"""C03 - dump/load round-trips every picklable object under every compressor,
level, protocol and target kind; the format is recognised from the content.

Monitor: real joblib.dump / joblib.load on generated objects; oracle = structural
isomorphism (value equality + aliasing / recursion structure).
"""

import io
import os
import pathlib
import shutil
import warnings

from vlib import budget, gen_obj, harness

ID = "C03"
LEVEL = "exploration"
NEEDS_DEPS = ["numpy"]
RULE = ("a case is one generated object (recursive universe of builtin scalars/containers/user classes, shared and "
        "cyclic references, payloads sized around 8 KiB / 64 KiB / 1 MiB, 8-24 MiB constant or short-period runs at levels 4-9, optionally holding numpy arrays) x several "
        "(compress argument, protocol 0..5, target kind path|Path|open file|BytesIO|open file or BytesIO already holding longer older content (junk, every compressor's magic number, a complete older dump directly after the new dump), load-from kind) combinations, "
        "then - for path targets - the file renamed to every other compression extension and to none and loaded again; "
        "distinct_nontrivial counts distinct (object canonical form, compress, protocol, target, load kind) round "
        "trips of objects with at least one container")
ASSUMPTIONS = [
    "reused targets: zero bytes directly after an xz / lzma dump are excluded (stream padding of the container format: the standard library's LZMAFile then requires another stream)",
    "iso (vlib/gen_obj.py) = equal values and a bijection between identities of mutable parts",
    "lz4 is not installed: compress='lz4' must raise ValueError, nothing else is asserted about it",
    "objects are picklable by construction (classes importable from vlib.userclasses)",
]
SHARDS = {"quick": 12, "thorough": 14}
FLOORS = {"quick": {"loads_in_which_a_read_came_back_short": 12, "huge_run_payloads": 3, "round_trips": 2500, "renamed_loads": 1500, "aliased_objects": 100, "big_payloads": 40, "dumps_over_older_longer_content": 500, "loads_from_a_file_positioned_after_a_header": 250, "objects_with_a_magic_number_inside_their_pickle": 30},
          "thorough": {"huge_run_payloads": 60, "round_trips": 50000, "renamed_loads": 30000, "aliased_objects": 2000, "big_payloads": 800, "dumps_over_older_longer_content": 10000, "loads_from_a_file_positioned_after_a_header": 5000, "objects_with_a_magic_number_inside_their_pickle": 600}}

EXTS = ["", ".pkl", ".z", ".gz", ".bz2", ".xz", ".lzma"]
METHODS = ["zlib", "gzip", "bz2", "lzma", "xz"]
_B = {}


def shard_setup(tier):
    import joblib.compressor as jc
    import joblib.numpy_pickle as jn
    import joblib.numpy_pickle_utils as ju
    budget.cap_address_space(3 << 30)
    _B["cpu"] = budget.CpuBudget()
    _B["mods"] = [jc, jn, ju]


def cases(tier, seed):
    n = 700 if tier == "quick" else 14000
    for i in range(n):
        yield dict(i=i)


def gen_compress(rng):
    k = rng.random()
    if k < 0.18:
        return rng.choice([0, False])
    if k < 0.30:
        return True
    if k < 0.50:
        return rng.randint(1, 9)
    if k < 0.68:
        return rng.choice(METHODS)
    return (rng.choice(METHODS), rng.choice([1, 3, 3, 6, 9, None]) if rng.random() < 0.9 else 0)


MAGICS = [b"ZF", b"\x1f\x8b", b"BZ", b"x\x9c", b"x\x01", b"]\x00", b"\xfd7"]


def magic_collision(rng):
    """an object whose NOT compressed pickle carries the first bytes of a compressor's (or the legacy format's) magic
    number a few bytes into the stream: as the value of a small int, as the length of a str / bytes object, or as the
    length of the first pickle frame - the format must be told from where the stream starts, nothing else"""
    m = int.from_bytes(rng.choice(MAGICS), "little")
    n = m + 65536 * rng.choice([0, 0, 1, 3])
    k = rng.choice(["int", "int", "int-in-tuple", "str-len", "bytes-len", "frame-len-str", "frame-len-bytes", "frame-len-bytearray", "str-content"])
    if k == "int":
        return ["i", str(n)]
    if k == "int-in-tuple":
        return ["T", [["i", str(n)], ["s", "t"], ["i", str(m)]]]
    L = m + (65536 if m < 300 else 0)      # lengths above 255 use the 4-byte length opcodes
    if k == "str-len":
        return ["s", "s" * L]
    if k == "bytes-len":
        return ["y", "41" * L]
    if k == "frame-len-str":
        return ["s", "s" * (L - 7)]
    if k == "frame-len-bytes":
        return ["y", "41" * (L - 7)]
    if k == "frame-len-bytearray":
        return ["B", "41" * (L - 11)]
    return ["s", rng.choice(["", "a", "ab", "abc"]) + rng.choice(MAGICS).decode("latin-1") + "tail"]


def gen_object(rng, tier):
    r = rng.random()
    if rng.random() < 0.09:
        return magic_collision(rng), "magic"
    if rng.random() < 0.012:
        # a very long constant / short-period run: one 8192-byte compressed block then inflates to many MiB
        kind = rng.choice(["zeros", "zeros", "ab"])
        n = rng.choice([8 << 20, (8 << 20) + 1, 12 << 20, 24 << 20])
        return ["Z", kind, n, 0], "huge-run"
    if r < 0.10:
        spec = gen_obj.gen_big(rng)
        if rng.random() < 0.5:
            spec = ["L", [spec, ["s", "tail"], gen_obj.gen_big(rng, 70000)]]
        return spec, "big"
    spec = gen_obj.gen_spec(rng, rng.choice([1, 2, 3, 4, 5, 6]), objects=True, width=rng.choice([2, 3, 4]))
    if r < 0.45:
        for _ in range(6):
            s2 = gen_obj.add_aliases(spec, rng)
            if gen_obj.refs_valid(s2) and "\"R\"" in __import__("json").dumps(s2):
                return s2, "aliased"
            spec = ["L", [gen_obj.gen_spec(rng, 3, objects=True), gen_obj.gen_spec(rng, 2, objects=True), ["i", "7"], ["s", "x"]]]
    return spec, "plain"


class ShortReads:
    """a raw stream (pipe, socket, FUSE / network file, user wrapper): read(n) may return fewer than n bytes before the end"""

    def __init__(self, raw, cap):
        self.b, self.cap, self.short = io.BytesIO(raw), cap, 0
        self.closed = False

    def read(self, n=-1):
        if n is None or n < 0:
            return self.b.read()
        data = self.b.read(min(n, self.cap))
        if len(data) < n and self.b.tell() < len(self.b.getbuffer()):
            self.short += 1
        return data

    def readinto(self, buf):
        data = self.read(len(buf))
        buf[:len(data)] = data
        return len(data)

    def readline(self):
        return self.b.readline()

    def seek(self, *a):
        return self.b.seek(*a)

    def tell(self):
        return self.b.tell()

    def readable(self):
        return True

    def seekable(self):
        return True

    def writable(self):
        return False

    def close(self):
        self.closed = True


def with_arrays(obj, rng):
    import numpy as np
    arrs = [np.arange(12, dtype=rng.choice(["<i4", "<f8", "<i2", "u1"])).reshape(3, 4),
            np.array([1.5, 2.5]), np.asfortranarray(np.arange(6.0).reshape(2, 3)),
            np.array(["a", "bc"], dtype=object)]
    if rng.random() < 0.5:
        # an array whose data is larger than what one read() of a raw stream returns
        arrs = [np.arange(rng.choice([20000, 40000]), dtype="<f8"), np.arange(70000, dtype="<i4").reshape(7, 10000)]
    a = rng.choice(arrs)
    return {"obj": obj, "arr": a, "again": [a, obj if isinstance(obj, (list, dict)) else None]}


def run_case(case, ctx):
    import joblib

    rng = harness.rng_for(ctx.seed, ID, case["i"])
    spec, klass = gen_object(rng, ctx.tier)
    obj = gen_obj.build(spec)
    if klass != "big" and rng.random() < 0.15:
        obj = with_arrays(obj, rng)
        klass += "+arrays"
    can = gen_obj.canon(spec) if klass.startswith(("plain", "aliased")) else f"{klass}:{spec}"
    ctx.count({"big": "big_payloads", "aliased": "aliased_objects", "huge-run": "huge_run_payloads", "magic": "objects_with_a_magic_number_inside_their_pickle"}.get(klass.split("+")[0], "plain_objects"))
    nontrivial = any(c in can for c in "[{<") or klass.startswith("big") or klass == "huge-run"
    d = harness.mkscratch("vjl-c03-")
    try:
        for combo in range(2 if klass == "huge-run" else (4 if klass.startswith("big") else 7)):
            compress = gen_compress(rng)
            if klass == "magic" and rng.random() < 0.8:
                compress = rng.choice([0, 0, False, ("zlib", 0)])
            if klass == "huge-run":
                compress = rng.choice([("zlib", rng.choice([4, 6, 9])), ("gzip", rng.choice([4, 9])), 9, 6, ("zlib", 1), 0, ("bz2", 1)])
            if klass.startswith("big") and not (compress in (0, False) or compress == "zlib" or compress == "gzip" or
                                                (isinstance(compress, int) and compress <= 3) or
                                                (isinstance(compress, tuple) and compress[0] in ("zlib", "gzip") and (compress[1] or 3) <= 3)):
                compress = rng.choice([0, 1, 3, ("gzip", 1), "zlib"])
            protocol = rng.choice([None, 0, 1, 2, 3, 4, 5])
            target = rng.choice(["path", "path", "path", "Path", "file", "bytesio", "reused-file", "reused-bytesio", "write-only-sink", "file-after-header"])
            if klass in ("huge-run",) or klass.startswith("big"):
                target = rng.choice(["path", "path", "Path", "file", "bytesio"])
            if target == "write-only-sink" and "arrays" in klass:
                target = "bytesio"      # array data is padded for alignment, which needs tell(): a bare sink is not a target for arrays
            ext = rng.choice(EXTS)
            load_from = rng.choice(["path", "file", "bytesio"]) if target in ("path", "Path", "file") else "bytesio"
            if target == "write-only-sink":
                load_from = "bytesio"
            if klass in ("plain+arrays", "aliased+arrays") and target in ("path", "Path", "file", "bytesio") and rng.random() < 0.6:
                # (only for small pickles with array data next to them: the standard unpickler itself wants complete reads for its
                # own items, all far below the 64 KiB a read returns here)
                load_from = "short-reads"
                if rng.random() < 0.6:
                    compress = rng.choice([0, False])     # (a decompressor in between asks for 8 KiB at a time: no read comes back short)
            if target.startswith("reused") or target == "file-after-header":
                load_from = "same-object"
            desc = dict(object=can[:300], klass=klass, compress=compress, protocol=protocol, target=target, ext=ext, load_from=load_from)
            path = os.path.join(d, f"f{combo}{ext}")
            if klass.startswith(("plain", "aliased")) and protocol in (0, 1):
                # the domain is 'every picklable object': what the standard pickle cannot round-trip under this protocol is outside
                # (an instance of a dict subclass that contains itself: protocols 0 and 1 pass its content as a constructor argument)
                try:
                    import pickle
                    if gen_obj.iso(obj, pickle.loads(pickle.dumps(obj, protocol))):
                        raise ValueError("differs")
                except Exception:  # noqa
                    ctx.count("combinations_outside_the_domain_not_picklable_under_the_protocol")
                    continue
            ctx.evaluated()
            _B["cpu"].arm(120)
            try:
                with warnings.catch_warnings():
                    warnings.simplefilter("ignore")
                    if target == "path":
                        ret = joblib.dump(obj, path, compress=compress, protocol=protocol)
                        if ret != [path]:
                            ctx.violation("dump-return", f"dump returned {ret!r}", desc)
                    elif target == "Path":
                        joblib.dump(obj, pathlib.Path(path), compress=compress, protocol=protocol)
                    elif target == "file":
                        with open(path, "wb") as f:
                            joblib.dump(obj, f, compress=compress, protocol=protocol)
                    elif target == "write-only-sink":
                        # dump() takes anything with a write() method for a file object: a sink that only collects what it is given
                        class Sink:
                            def __init__(self):
                                self.parts = []

                            def write(self, b):
                                self.parts.append(bytes(b))
                                return len(b)

                        sink = Sink()
                        joblib.dump(obj, sink, compress=compress, protocol=protocol)
                        raw = b"".join(sink.parts)
                        ctx.count("dumps_to_a_write_only_sink")
                    elif target == "file-after-header":
                        # the dump is the payload of a container: an open file in which h header bytes come first; it is
                        # loaded from a file object that has read exactly those h bytes (h around the sizes of read buffers:
                        # only a few bytes of the dump are then left in the reader's buffer)
                        h = rng.choice([1, 7, 64, 4090, 4091, 4093, 4095, 4096, 8186, 8187, 8188, 8189, 8190, 8191, 8192, 8193, 16383, 65535])
                        desc["header_bytes"] = h
                        with open(path, "wb") as f:
                            f.write(rng.randbytes(h))
                            joblib.dump(obj, f, compress=compress, protocol=protocol)
                        with open(path, "rb") as f:
                            f.read(h)
                            back = joblib.load(f)
                        with open(path, "rb") as f:
                            raw = f.read()[h:]
                        ctx.count("loads_from_a_file_positioned_after_a_header")
                    elif target.startswith("reused"):
                        # the target already holds longer, older content and is overwritten from its start: what follows the
                        # new dump is old data - junk, another compressor's magic number, or a complete older dump
                        probe = io.BytesIO()
                        joblib.dump(obj, probe, compress=compress, protocol=protocol)
                        L = len(probe.getvalue())
                        tail_kind = rng.choice(["zeros", "random", "magic-gzip", "magic-zlib", "magic-bz2", "magic-xz", "magic-lzma", "magic-pickle", "older-dump"])
                        if tail_kind == "zeros" and sniff(probe.getvalue()) in ("xz", "lzma"):
                            # zero bytes after an xz / lzma stream are 'stream padding' of the container format: CPython's
                            # LZMAFile then insists on another stream (EOFError) - the standard library's rule, not joblib's
                            tail_kind = "random"
                        if tail_kind == "older-dump":
                            ob = io.BytesIO()
                            joblib.dump(["older", 1, 2.5], ob, compress=rng.choice([0, 3, ("gzip", 3), ("bz2", 3), ("xz", 3)]))
                            tail = ob.getvalue()
                        else:
                            tail = {"zeros": b"\0" * 64, "random": rng.randbytes(200), "magic-gzip": b"\x1f\x8b" + rng.randbytes(100), "magic-zlib": b"\x78\x9c" + rng.randbytes(100),
                                    "magic-bz2": b"BZh9" + rng.randbytes(100), "magic-xz": b"\xfd7zXZ\x00" + rng.randbytes(100), "magic-lzma": b"]\x00\x00\x80\x00" + rng.randbytes(100),
                                    "magic-pickle": b"\x80\x04N." + rng.randbytes(50)}[tail_kind]
                        desc["old_content_after_the_dump"] = tail_kind
                        old = rng.randbytes(L) + tail
                        if target == "reused-bytesio":
                            fobj = io.BytesIO(old)
                        else:
                            with open(path, "wb") as f0:
                                f0.write(old)
                            fobj = open(path, "r+b")
                        try:
                            fobj.seek(0)
                            joblib.dump(obj, fobj, compress=compress, protocol=protocol)
                            ctx.count("dumps_over_older_longer_content")
                            if fobj.tell() == L:
                                ctx.count("old_content_directly_after_the_dump:" + tail_kind.split("-")[0])
                            fobj.seek(0)
                            back = joblib.load(fobj)
                            fobj.seek(0)
                            raw = fobj.read()[:L]
                        finally:
                            fobj.close()
                    else:
                        bio = io.BytesIO()
                        joblib.dump(obj, bio, compress=compress, protocol=protocol)
                        raw = bio.getvalue()
                    if target not in ("bytesio", "write-only-sink", "file-after-header") and not target.startswith("reused"):
                        with open(path, "rb") as f:
                            raw = f.read()
                    if load_from == "same-object":
                        pass
                    elif load_from == "path":
                        back = joblib.load(path)
                    elif load_from == "file":
                        with open(path, "rb") as f:
                            back = joblib.load(f)
                    elif load_from == "short-reads":
                        sr = ShortReads(raw, 65536)
                        back = joblib.load(sr)
                        ctx.count("loads_from_a_raw_stream_with_short_reads")
                        if sr.short:
                            ctx.count("loads_in_which_a_read_came_back_short")
                    else:
                        back = joblib.load(io.BytesIO(raw))
                diff = gen_obj.iso(obj, back)
                err = None
            except (Exception, budget.CpuBudgetExceeded) as e:  # noqa
                err, diff = f"{type(e).__name__}: {str(e)[:200]}", None
            finally:
                _B["cpu"].disarm()
            ctx.count("round_trips")
            if nontrivial:
                ctx.sig((can, repr(compress), protocol, target, ext, load_from))
            if err or diff:
                ctx.violation("round-trip:" + ("raises" if err else "differs"),
                              f"dump/load of {klass} object compress={compress!r} protocol={protocol} target={target}{ext} "
                              f"load_from={load_from}: {err or diff}", desc)
                continue
            # expected on-disk format: content-detected
            expect_method = expected_method(compress, ext if target in ("path", "Path") else None)
            got_method = sniff(raw)
            if expect_method is not None and got_method != expect_method:
                ctx.violation("wrong-compressor-used", f"compress={compress!r} target={target}{ext}: file content is {got_method}, expected {expect_method}", desc)
            # the same bytes under every other name load identically
            if target == "reused-file" and os.path.exists(path):
                os.unlink(path)
            if target in ("path", "Path", "file"):
                for e2 in EXTS:
                    if e2 == ext:
                        continue
                    p2 = os.path.join(d, f"r{combo}{e2}")
                    os.rename(path, p2)
                    path = p2
                    try:
                        with warnings.catch_warnings():
                            warnings.simplefilter("ignore")
                            back = joblib.load(p2)
                        diff = gen_obj.iso(obj, back)
                        err = None
                    except Exception as e:  # noqa
                        err, diff = f"{type(e).__name__}: {str(e)[:200]}", None
                    ctx.count("renamed_loads")
                    if err or diff:
                        ctx.violation("renamed-file-loads-differently", f"{got_method} file written as {ext or '<none>'} renamed to {e2 or '<none>'}: {err or diff}", desc)
                        break
                os.unlink(path)
            if case["i"] % 150 == 0 and combo == 0:
                ctx.sample(desc)
        # lz4 is not installed
        if case["i"] % 20 == 0:
            try:
                joblib.dump(obj, os.path.join(d, "x.lz4"), compress="lz4")
                ctx.violation("lz4-accepted", "compress='lz4' did not raise although lz4 is not installed", {})
            except ValueError:
                ctx.count("lz4_rejected")
    finally:
        shutil.rmtree(d, ignore_errors=True)


def sniff(raw):
    for name, prefix in (("gzip", b"\x1f\x8b"), ("bz2", b"BZ"), ("xz", b"\xfd7zXZ"), ("lzma", b"\x5d\x00"), ("zlib", b"\x78")):
        if raw.startswith(prefix):
            return name
    return "none"


def expected_method(compress, ext):
    """what the documentation promises; None = not asserted"""
    by_ext = {".z": "zlib", ".gz": "gzip", ".bz2": "bz2", ".xz": "xz", ".lzma": "lzma"}
    if isinstance(compress, tuple):
        return "none" if compress[1] == 0 else compress[0]
    if isinstance(compress, str):
        return compress
    if ext in by_ext:
        return by_ext[ext]
    if compress in (0, False):
        return "none"
    return "zlib"
