"""C11 - concurrent users of one cache directory always get correct values.

Engine: LD_PRELOAD interposer in sched mode + coordinator (vlib/fssched.py):
the interleaving of the participants' file-system calls (reads, stats and
directory listings included) is chosen by the check - a seeded PCT-like
schedule with <= 3 pre-emptions, or a random walk.
"""

import glob
import json
import os
import shutil
import warnings

from vlib import fssched, harness

ID = "C11"
LEVEL = "exploration"
RULE = ("a case is one schedule: 2-4 participants (processes; some with 2 threads) on one cache directory, each running a "
        "short script of cached calls with equal / different arguments (optionally with a cache_validation_callback that rejects "
        "entries, or from another source version of the function, so that calls themselves invalidate and clear), call_and_shelve, reduce_size(items_limit 0|1), "
        "Memory.clear or func.clear, on a cold or warm, compressed or plain store; wrappers are created sequentially, then "
        "the coordinator picks which participant performs its next file-system call (PCT-like with <= 3 pre-emptions, "
        "random walk, or - in the 'thread duel' scenario - strict turns between two threads of one process storing the same large entry, or - in the 'refill' scenario - an adversary that lets another participant store a new entry in the function's directory each time participant 0 is about to rmdir it); distinct_nontrivial counts distinct schedules (hash of the granted (participant, op, file) sequence) "
        "in which at least two participants were interleaved"
        " Thread storms: a third of the rounds name all threads alike, f(3) has one length for all writers, result files left at the end of a round are read back, a logging handler classifies the loads joblib recovered from.")
ASSUMPTIONS = [
    "only exceptions escaping cached calls (and wrong values) are violations; exceptions inside clear()/reduce_size() "
    "themselves are recorded as observations",
    "a participant that issues no watched call for 0.6 s is treated as not contending and is never forced",
    "file-system calls are serialised by the coordinator: races inside one call's kernel execution are not explored",
]
SHARDS = {"quick": 12, "thorough": 14}
FLOORS = {"quick": {"schedules": 200, "distinct_schedules": 150, "cached_calls_observed": 800, "preemption_points": 8, "refill_schedules": 6, "directory_refilled_before_its_rmdir": 4, "thread_duel_schedules": 4, "thread_duel_turns": 40, "thread_storm_rounds": 100, "thread_storm_calls": 5000, "thread_storm_preemptions": 20000},
          "thorough": {"schedules": 5000, "distinct_schedules": 3500, "cached_calls_observed": 30000, "preemption_points": 12, "refill_schedules": 150, "directory_refilled_before_its_rmdir": 100, "thread_duel_schedules": 100, "thread_duel_turns": 1000, "thread_storm_rounds": 2000, "thread_storm_calls": 100000, "thread_storm_preemptions": 400000}}
PART = os.path.join(harness.VERIF, "checks", "c11_part.py")

FUNCS = '''
import os
import threading


def make(x, who):
    # a valid result of f(x) computed by writer `who`: self-consistent, but its bytes (and length) differ from
    # writer to writer, so that a file mixing two writers' output cannot be a valid result
    # (x == 5: large enough to be written with several write() calls)
    # (x == 3: all writers' results have ONE length and differ in content only - a file mixing two of them is a valid pickle)
    return ["res", x, who, chr(65 + who % 26) * ((150000 if x == 5 else 4000 if x % 2 else 30) + (who % 977 if x != 3 else 100000))]


def valid(v, x=None):
    return (isinstance(v, list) and len(v) == 4 and v[0] == "res" and (x is None or v[1] == x)
            and v == make(v[1], v[2]))


def f(x):
    """cached function of C11"""
    return make(x, os.getpid() * 7919 + threading.get_ident() // 64 % 7919)
'''


def c11funcs_valid(v):
    ns = {}
    exec(FUNCS, ns)
    return ns["valid"](v)


def setup(tier):
    harness.ensure_shim()


def cases(tier, seed):
    n = 260 if tier == "quick" else 6000
    for i in range(n):
        yield dict(i=i)
    for i in range(14 if tier == "quick" else 280):
        yield dict(i=i, kind="threads")


def refill_policy(rng, state):
    """adversary for 'directory being removed while others fill it': whenever participant 0 is about to rmdir the
    function's directory, another participant is first allowed to create a new entry in it (up to 6 times)"""
    import re
    entry = re.compile(r"/f/[0-9a-f]{32}$")

    def policy(cands):
        a = [k for k, c in enumerate(cands) if c[0] == 0 and c[2] == "rmdir" and c[3].rstrip("/").endswith("/c11funcs/f")]
        others = [k for k, c in enumerate(cands) if c[0] != 0]
        if not a:
            for k in others:
                pass
            return None
        if state.get("filled") or not others or state.get("refills", 0) >= 6 or state.get("waited", 0) > 60:
            state["refills"] = state.get("refills", 0) + (1 if state.get("filled") else 0)
            state["filled"] = False
            state["waited"] = 0
            return a[0]
        k = rng.choice(others)
        state["waited"] = state.get("waited", 0) + 1
        if cands[k][2] == "mkdir" and entry.search(cands[k][3].rstrip("/")):
            state["filled"] = True
        return k
    return policy


def zipper_policy(rng, state):
    """adversary for 'two threads of one process store the same entry': the two threads of participant 0 take strict
    turns at every file-system call (anything the two share - e.g. a temporary file - gets both writers' data)"""
    def policy(cands):
        mine = [k for k, c in enumerate(cands) if c[0] == 0]
        other = [k for k in mine if cands[k][1] != state.get("last")]
        if not mine or rng.random() < 0.1:
            return None
        k = rng.choice(other or mine)
        if other:
            state["turns"] = state.get("turns", 0) + 1
        state["last"] = cands[k][1]
        return k
    return policy


def gen_roles(rng):
    r0 = rng.random()
    if r0 < 0.04:
        # thread duel: two threads of ONE process compute and store the same (large, several write() calls) entry on a
        # cold store while taking strict turns; an observer and a later reader look at what ends up under the final name
        roles = [dict(kind="caller", ops=[["call", 5], ["call", 5]], compress=False, threads=2, zipper=True),
                 dict(kind="observer", ops=[["observe"]] * rng.randint(2, 4), compress=False, threads=1)]
        if rng.random() < 0.5:
            roles.append(dict(kind="caller", ops=[["call", 5]], compress=False, threads=1))
        return roles
    if r0 < 0.10:
        # refill: participant 0's first call finds other code recorded and wipes the function directory while the others
        # keep storing new entries in it
        compress = rng.random() < 0.3
        roles = [dict(kind="caller", ops=[["call", 1], ["call", 2]], compress=compress, threads=1, version="v2", refill=True)]
        for _ in range(rng.choice([1, 2])):
            roles.append(dict(kind="caller", ops=[["call", x] for x in rng.sample(range(10, 40), rng.randint(5, 8))], compress=compress, threads=1, version="v2"))
        return roles
    if r0 < 0.22:
        # invalidation duel: every participant rejects / finds outdated what the others stored - entries are cleared
        # (validation callback) or the whole function directory is wiped (other source version) while others use them
        x = rng.choice([1, 2, 3])
        compress = rng.random() < 0.3
        mode = rng.choice(["callback", "callback", "version", "both"])
        roles = []
        for i in range(rng.choice([2, 2, 3])):
            roles.append(dict(kind="caller", ops=[["call", rng.choice([x, x, 1])] for _ in range(rng.randint(2, 3))], compress=compress, threads=1,
                              validation=rng.choice(["expired", "expires_after", "expired", "valid"]) if mode in ("callback", "both") else None,
                              version=("v2" if i % 2 else "v1") if mode in ("version", "both") else "v1"))
        if rng.random() < 0.4:
            roles.append(dict(kind=rng.choice(["reducer", "fclearer"]), ops=[["reduce", 0]] if rng.random() < 0.5 else [["fclear"]], compress=compress, threads=1))
        return roles
    if r0 < 0.47:
        # duel: several writers of ONE entry on a cold store, watched by a read-only observer
        x = rng.choice([1, 1, 3, 2, 5, 5])
        compress = rng.random() < 0.4 and x != 5
        roles = [dict(kind="caller", ops=[["call", x]] * rng.choice([1, 2]), compress=compress, threads=1) for _ in range(rng.choice([2, 2, 3]))]
        if rng.random() < 0.5:
            # two THREADS of one process write the same entry (same pid: the temporary name must still be unique)
            roles[0] = dict(kind="caller", ops=[["call", x], ["call", x]], compress=compress, threads=2)
        roles.append(dict(kind="observer", ops=[["observe"]] * rng.randint(2, 5), compress=compress, threads=1))
        return roles
    n = rng.choice([2, 2, 2, 3, 3, 4])
    kinds = ["caller", "caller"] + [rng.choice(["caller", "reducer", "clearer", "fclearer", "shelver"]) for _ in range(n - 2)]
    if rng.random() < 0.6:
        kinds[1] = rng.choice(["reducer", "clearer", "fclearer", "caller"])
    compress = rng.random() < 0.3
    roles = []
    for k in kinds:
        if k == "caller":
            xs = [rng.choice([1, 1, 2, 3]) for _ in range(rng.randint(2, 4))]
            ops = [["call", x] for x in xs]
        elif k == "shelver":
            ops = [["shelve", rng.choice([1, 2])], ["call", 1]]
        elif k == "reducer":
            ops = [["reduce", rng.choice([0, 0, 1])] for _ in range(rng.randint(1, 3))]
            if rng.random() < 0.5:
                ops.insert(rng.randint(0, len(ops)), ["call", rng.choice([1, 2])])
        elif k == "clearer":
            ops = [["clear"] for _ in range(rng.randint(1, 3))]
            if rng.random() < 0.5:
                ops.append(["call", rng.choice([1, 2])])
        else:
            ops = [["fclear"], ["call", rng.choice([1, 2])], ["fclear"]]
        roles.append(dict(kind=k, ops=ops, compress=compress, threads=2 if (k == "caller" and rng.random() < 0.15) else 1))
    return roles


THREADS = os.path.join(harness.VERIF, "checks", "c11_threads.py")


def run_threads(case, ctx):
    """threads of one process, pre-empted at line boundaries inside joblib's memory / store code (no file-system call
    separates a test of in-memory state from its use)"""
    rng = harness.rng_for(ctx.seed, ID, "threads", case["i"])
    work = harness.mkscratch("vjl-c11t-")
    try:
        with open(os.path.join(work, "c11funcs.py"), "w") as f:
            f.write(FUNCS)
        cfg = dict(moddir=work, scratch=work, seed=rng.randrange(1 << 30), rounds=10, p_yield=rng.choice([0.02, 0.05, 0.1]), p_sleep=rng.choice([0.0, 0.01, 0.02]))
        cf, of = os.path.join(work, "cfg.json"), os.path.join(work, "out.json")
        with open(cf, "w") as f:
            json.dump(cfg, f)
        ctx.evaluated()
        r = harness.run_py([THREADS, cf, of], timeout=240, result_file=of, cwd=work)
        res = r["result"]
        if not res:
            ctx.inconclusive("thread-storm-child-failed", dict(cfg=cfg, err=r["err"][-400:]))
            return
        if not res["joblib"].startswith(harness.REPO):
            ctx.inconclusive("wrong-joblib", res["joblib"])
            return
        ctx.count("thread_storm_rounds", res["counts"].get("rounds", 0))
        ctx.count("thread_storm_calls", res["counts"].get("calls", 0))
        ctx.count("thread_storm_disturbances", res["counts"].get("disturbances", 0))
        ctx.count("thread_storm_preemptions", res["yields"])
        ctx.maxi("thread_storm_preemption_points", res["points"])
        for k, v in res["counts"].items():
            if k.startswith(("disturber_raised", "shelved_", "rounds_with_identically", "result_files_read_back", "loads_joblib_recovered_from")):
                ctx.count(k, v)
        ctx.sig(("threads", cfg["seed"]))
        for key, n in res["errs"].items():
            ctx.violation(("wrong-value:threads" if key == "wrong-value" else "mixture:threads" if key.startswith("result-file") else "mixture:threads:" + key if key.startswith("reader-saw") else "raises:threads:" + key),
                          f"threads of one process on one cache directory ({n}x in 10 rounds): {res['witness'].get(key)}", dict(cfg=cfg, witness=res["witness"].get(key)))
        if case["i"] % 7 == 0:
            ctx.sample(dict(kind="threads", cfg=cfg, counts=res["counts"]))
    finally:
        shutil.rmtree(work, ignore_errors=True)


def run_case(case, ctx):
    if case.get("kind") == "threads":
        return run_threads(case, ctx)
    rng = harness.rng_for(ctx.seed, ID, case["i"])
    roles = gen_roles(rng)
    if rng.random() < 0.25 and not any(r.get("compress") for r in roles):
        # Memory(mmap_mode='r'): a freshly computed result is read back from the store before it is returned
        for r in roles:
            r["mmap_mode"] = "r"
        ctx.count("schedules_with_mmap_mode")
    warm = (rng.random() < 0.5 and not any(r["kind"] == "observer" for r in roles)) or any(r.get("refill") for r in roles)
    if any(r.get("zipper") for r in roles):
        warm = False
    strategy = rng.choice(["pct", "pct", "walk"])
    work = harness.mkscratch("vjl-c11-")
    try:
        root = os.path.join(work, "cache")
        os.makedirs(root)
        for ver in ("v1", "v2"):
            os.makedirs(os.path.join(work, ver))
            with open(os.path.join(work, ver, "c11funcs.py"), "w") as f:
                # v2 = the same function with different source text (another comment line): same results, other code
                f.write(FUNCS if ver == "v1" else FUNCS.replace('    """cached function of C11"""', '    """cached function of C11"""\n    # edited'))
        if warm:
            out = os.path.join(work, "warm.json")
            r = harness.run_py([PART, json.dumps(dict(ops=[["call", 1], ["call", 2]], compress=roles[0]["compress"])), root, out],
                               timeout=60, result_file=out)
            if not r["result"]:
                ctx.inconclusive("warm-up-failed", r["err"][-400:])
                return
        argvs = [[PART, json.dumps(role), root, os.path.join(work, f"out{i}.json")] for i, role in enumerate(roles)]
        pstate = {}
        refill = any(r.get("refill") for r in roles)
        zipper = any(r.get("zipper") for r in roles)
        res = fssched.run_schedule(rng, argvs, root, work, strategy=strategy, est_len=rng.choice([40, 80, 150]),
                                   policy=refill_policy(rng, pstate) if refill else (zipper_policy(rng, pstate) if zipper else None))
        if zipper:
            ctx.count("thread_duel_schedules")
            ctx.count("thread_duel_turns", pstate.get("turns", 0))
        if refill:
            ctx.count("refill_schedules")
            ctx.count("directory_refilled_before_its_rmdir", pstate.get("refills", 0))
            ctx.maxi("max_refills_in_one_schedule", pstate.get("refills", 0))
        ctx.evaluated()
        ctx.count("schedules")
        desc = dict(roles=[dict(kind=r["kind"], ops=r["ops"], threads=r["threads"], validation=r.get("validation"), version=r.get("version", "v1"), mmap_mode=r.get("mmap_mode")) for r in roles], warm=warm, strategy=strategy,
                    compress=roles[0]["compress"], schedule_len=len(res["trace"]))
        if res["timed_out"]:
            ctx.inconclusive("schedule-watchdog", dict(desc, rcs=res["rcs"]))
            return
        interleaved = len({str(t[0]) for t in res["trace"]}) >= 2 and any(a[0] != b[0] for a, b in zip(res["trace"], res["trace"][1:]))
        sched_hash = harness.h(res["trace"], 12)
        if interleaved:
            ctx.sig(sched_hash)
            ctx.add("distinct_schedules", sched_hash)
        for pp in res["preempt_points"]:
            ctx.add("preemption_points", f"{pp[0]}:{pp[1]}")
        ctx.maxi("max_schedule_len", len(res["trace"]))
        for i, role in enumerate(roles):
            try:
                with open(os.path.join(work, f"out{i}.json")) as f:
                    out = json.load(f)
            except (OSError, ValueError):
                log = open(os.path.join(work, f"p{i}.log"), errors="replace").read()[-600:]
                ctx.inconclusive("participant-died", dict(desc, participant=i, rc=res["rcs"].get(i), log=log))
                continue
            for rec in out["results"]:
                op = rec["op"]
                if op[0] in ("call", "shelve"):
                    ctx.count("cached_calls_observed")
                    if "exc" in rec:
                        key = f"{rec['exc']}@{rec['frame']}"
                        ctx.violation(key, f"cached call {op} in participant {i} ({role['kind']}) raised {rec['exc']}: {rec['msg']} via {rec['chain']}; "
                                           f"other participants: {[r['kind'] for j, r in enumerate(roles) if j != i]}",
                                      dict(desc, participant=i, record=rec, schedule=res["trace"][-60:]))
                    elif not rec["ok"]:
                        ctx.violation("wrong-value", f"cached call {op} in participant {i} returned {rec.get('value')}", dict(desc, participant=i, record=rec, schedule=res["trace"][-60:]))
                elif op[0] == "observe":
                    ctx.count("observer_scans")
                    if not rec.get("ok", True):
                        ctx.violation("mixed-or-partial-final-file", f"observer saw files under their final name that are not one complete result: {rec['bad_files'][:2]}",
                                      dict(desc, participant=i, record=rec, schedule=res["trace"][-60:]))
                    elif "exc" in rec:
                        ctx.inconclusive("observer-failed", rec)
                elif "exc" in rec:
                    ctx.count("observed_exceptions_in_clear_or_reduce")
                    ctx.add("clear_reduce_exception_kinds", f"{rec['exc']}@{rec['frame']}")
        # whatever is visible under its final name must be one complete result
        import joblib
        for p in glob.glob(os.path.join(root, "**", "output.pkl"), recursive=True):
            try:
                with warnings.catch_warnings():
                    warnings.simplefilter("ignore")
                    v = joblib.load(p)
                ok = c11funcs_valid(v)
            except FileNotFoundError:
                continue
            except Exception as e:  # noqa
                ok, v = False, f"{type(e).__name__}: {e}"
            ctx.count("final_files_checked")
            if not ok:
                ctx.violation("mixed-or-partial-final-file", f"{os.path.relpath(p, root)} is not one complete result: {str(v)[:100]}", dict(desc, schedule=res["trace"][-60:]))
        if case["i"] % 50 == 0:
            ctx.sample(dict(desc, schedule_head=res["trace"][:25]))
    finally:
        shutil.rmtree(work, ignore_errors=True)
