"""a long-lived session of C12: imports the function's module once (version k at that time), then answers call requests
dropped as cmd<n>.json into its directory until told to quit.  usage: c12_live.py <cfg.json>"""
import json
import os
import sys
import time
import warnings

cfg = json.load(open(sys.argv[1]))
d, k = cfg["dir"], cfg["version"]
BODY = ("import json, os\n\n\ndef f(x):\n    fd = os.open({log!r}, os.O_WRONLY | os.O_APPEND)\n    os.write(fd, (json.dumps(['v{k}', x]) + '\\n').encode())\n"
        "    os.close(fd)\n    return ('v{k}', x)\n")
path = os.path.join(d, "c12pmod.py")
new = BODY.format(log=cfg["log"], k=k)
if not os.path.exists(path) or open(path).read() != new:
    with open(path, "w") as f:
        f.write(new)
sys.path.insert(0, d)
warnings.simplefilter("ignore")
import joblib  # noqa: E402
from joblib import Memory  # noqa: E402
import c12pmod  # noqa: E402

c = Memory(os.path.join(d, "cache"), verbose=0).cache(c12pmod.f)
n = 0
deadline = time.monotonic() + cfg.get("lifetime", 240)
while time.monotonic() < deadline:
    cf = os.path.join(d, f"cmd{n}.json")
    if not os.path.exists(cf):
        time.sleep(0.01)
        continue
    cmd = json.load(open(cf))
    if cmd["op"] == "quit":
        break
    try:
        out = dict(values=[c(a) for a in cmd["args"]], joblib=joblib.__file__)
    except Exception as e:  # noqa
        out = dict(error=f"{type(e).__name__}: {e}"[:300], joblib=joblib.__file__)
    with open(os.path.join(d, f"res{n}.json.tmp"), "w") as f:
        json.dump(out, f)
    os.replace(os.path.join(d, f"res{n}.json.tmp"), os.path.join(d, f"res{n}.json"))
    n += 1
