"""child of C17: the EFFECT of temp_folder / max_nbytes / mmap_mode settings on real process workers, over a sequence of
scopes in one process (the loky executor is reused from call to call).  Each step makes a Parallel call on the loky or
multiprocessing backend with a large array argument and records where the argument the task received is mapped from
and with which mode.  usage: c17_effects.py cfg.json out.json"""
import json
import os
import sys
import warnings

cfg = json.load(open(sys.argv[1]))
warnings.simplefilter("ignore")

import numpy as np  # noqa: E402

import joblib  # noqa: E402
from joblib import Parallel, delayed, parallel_config  # noqa: E402

from vlib.c17_tasks import where  # noqa: E402

a = np.arange(5000, dtype="f8")
out = []
for step in cfg["steps"]:
    ctxs = [parallel_config(**{k: (v if k != "temp_folder" else cfg["folders"][v]) for k, v in c.items()}) for c in step["contexts"]]
    explicit = {k: (v if k != "temp_folder" else cfg["folders"][v]) for k, v in step["explicit"].items()}
    try:
        for c in ctxs:
            c.__enter__()
        try:
            res = Parallel(n_jobs=2, backend=step["backend"], **explicit)(delayed(where)(a) for _ in range(2))
        finally:
            for c in reversed(ctxs):
                c.__exit__(None, None, None)
        out.append(dict(res=res))
    except BaseException as e:  # noqa
        out.append(dict(exc=f"{type(e).__name__}: {e}"[:300]))
with open(sys.argv[2] + ".tmp", "w") as f:
    json.dump(dict(steps=out, joblib=joblib.__file__), f)
os.replace(sys.argv[2] + ".tmp", sys.argv[2])
os._exit(0)
