"""child of C20's group-signal layer: a client that registers files and a folder through joblib's own resource tracker
object (the tracker is started by ensure_running(), with the signal mask hand-over of the real start-up), then the whole
process group receives SIGINT / SIGTERM (a ^C at the terminal, "killall python") after a seeded delay.
usage: c20_sig_child.py cfg.json"""
import json
import os
import signal
import sys
import time
import warnings

warnings.simplefilter("ignore")
cfg = json.load(open(sys.argv[1]))
from joblib.externals.loky.backend import resource_tracker  # noqa: E402

d = cfg["dir"]
if cfg.get("warm"):
    # the tracker has been running for a while when the first resource is registered
    resource_tracker.ensure_running()
    time.sleep(cfg["warm"])
for path, rtype in cfg["resources"]:
    resource_tracker.register(path, rtype)
with open(os.path.join(d, "tracker.pid"), "w") as f:
    f.write(str(resource_tracker._resource_tracker._pid))
os.rename(os.path.join(d, "tracker.pid"), os.path.join(d, "tracker.pid.done"))
if cfg["delay"]:
    time.sleep(cfg["delay"])
os.killpg(os.getpgid(0), getattr(signal, cfg["signal"]))
time.sleep(cfg.get("linger", 0.3))       # SIGINT: KeyboardInterrupt ends this sleep; SIGTERM: the process is gone already
