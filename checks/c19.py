"""C19 - numpy arrays persist bit-exactly and memory-map faithfully.

Monitors: (A) dump/load round trips over dtype x shape x layout x container x
compressor x protocol x target with exact dtype / shape / order / bytes oracles;
(B) mmap_mode loads checked for memmap type, file, alignment, contents and
write-through semantics; (C) arrays passed to loky / multiprocessing workers
through automatic memmapping with max_nbytes around the array size.
"""

import io
import json
import os
import shutil
import warnings

from vlib import harness

ID = "C19"
LEVEL = "exploration"
NEEDS_DEPS = ["numpy"]
RULE = ("a case is one array from dtypes {bool, (u)int8-64, float16-64, complex, S, U, datetime64/timedelta64 with units, "
        "structured incl. nested / sub-array / mixed-endian fields, object} x byte order x shapes {0-d, (0,), (0,3), (1,), (7,), "
        "(3,4), (2,3,4), ..., 6 % spanning several 256 KiB read chunks, in thorough some beyond the 16 MiB write chunk} x layouts {C, F, sliced, transposed, offset view, negative stride, broadcast} x subclass "
        "{ndarray, np.matrix, user subclasses, memmap-backed}, alone or nested in containers with other arrays, x (A) "
        "compressor / level / protocol / target round trips, (B) mmap modes r, r+, c, w+, (C) loky / multiprocessing workers "
        "with max_nbytes in {None, size-1, size, size+1, '1K', 0}; distinct_nontrivial counts distinct (dtype, shape, layout, "
        "subclass, scenario parameters) with a non-empty array"
        " Containers include one array referenced three times; worker runs include mmap_mode=None.")
ASSUMPTIONS = [
    "exact dtype (incl. byte order) is asserted with ensure_native_byte_order=False; the default load normalises byte order by documented design",
    "F-contiguous inputs stay F, C-contiguous stay C; non-contiguous inputs only need equal values",
    "np.memmap inputs come back as plain arrays (documented); aliasing between arrays is not part of the statement",
]
SHARDS = {"quick": 12, "thorough": 14}
FLOORS = {"quick": {"arrays_spanning_several_read_chunks": 60, "round_trips": 3000, "mmap_loads": 400, "worker_runs": 60, "worker_memmapped_args": 20, "subclass_round_trips": 100, "worker_runs_with_a_view_of_a_file_backed_array": 40},
          "thorough": {"arrays_spanning_several_read_chunks": 1500, "arrays_spanning_several_write_chunks": 5, "round_trips": 60000, "mmap_loads": 8000, "worker_runs": 900, "worker_memmapped_args": 300, "subclass_round_trips": 2000, "worker_runs_with_a_view_of_a_file_backed_array": 600}}
CHILD = os.path.join(harness.VERIF, "checks", "c19_child.py")


def cases(tier, seed):
    n = 260 if tier == "quick" else 5200
    for i in range(n):
        yield dict(kind="roundtrip", i=i)
    m = 90 if tier == "quick" else 1800
    for i in range(m):
        yield dict(kind="mmap", i=i)
    w = 16 if tier == "quick" else 240
    for i in range(w):
        yield dict(kind="workers", i=i)


_B = {}


def shard_setup(tier):
    from vlib import budget
    if tier == "thorough":
        HUGE_P[0] = 0.02
    budget.cap_address_space(8 << 30)
    _B["cpu"] = budget.CpuBudget()


def guarded(fn, seconds=20):
    """run fn under this process's CPU budget: a load that spins is a violation, not a hung shard"""
    from vlib import budget
    _B["cpu"].arm(seconds)
    try:
        return fn()
    except budget.CpuBudgetExceeded as e:
        raise RuntimeError(f"CPU budget of {seconds}s exceeded {e}") from None
    finally:
        _B["cpu"].disarm()


def run_case(case, ctx):
    {"roundtrip": run_roundtrip, "mmap": run_mmap, "workers": run_workers}[case["kind"]](case, ctx)


BIG_P = [0.06]
HUGE_P = [0.0]


def gen_array(rng, kinds=None):
    import numpy as np
    from vlib import gen_np, np_userclasses
    dtype = gen_np.pick_dtype(rng)
    shape = rng.choice(gen_np.SHAPES)
    layout = rng.choice(gen_np.LAYOUTS)
    if rng.random() < BIG_P[0] and dtype != "O":
        # large enough to need several 256 KiB read chunks (and, rarely, more than one 16 MiB write chunk)
        item = gen_np.np_dtype(dtype).itemsize
        n = (300000 // item + rng.choice([1, 7, 1000])) * rng.choice([1, 1, 2, 3])
        if rng.random() < HUGE_P[0]:
            n = (17 << 20) // item + 3
        shape = rng.choice([[n], [n // 200 + 1, 200], [3, n // 3 + 1]])
        layout = rng.choice(["C", "F", "C", "sliced" if n < 400000 else "C"])
    a, eff = gen_np.make(rng, dtype, shape, layout)
    sub = "ndarray"
    r = rng.random()
    dt = a.dtype
    if r < 0.10 and a.ndim <= 2 and dt.kind in "biufc" and a.size:
        a = np.matrix(np.atleast_2d(a))
        sub = "matrix"
    elif r < 0.17:
        a = a.view(np_userclasses.MyArr)
        sub = "MyArr"
    elif r < 0.22 and dt.kind != "O":
        a = np_userclasses.Tagged(a, tag="t%d" % rng.randrange(9))
        sub = "Tagged"
    return a, dict(dtype=dtype, shape=list(a.shape), layout=eff, subclass=sub)


def check_loaded(ctx, a, b, desc, exact_dtype, key_prefix):
    """None if b faithfully reproduces a, else records a violation and returns True"""
    import numpy as np
    from vlib import gen_np
    # arrays that numpy pickles itself (user subclasses) lose a non-native byte order inside numpy (>= 2.x normalises it
    # in __setstate__), outside joblib's reach: for them the dtype is compared up to byte order
    if exact_dtype and type(a) not in (np.ndarray, np.matrix, np.memmap):
        exact_dtype = "either"
    why = None
    if type(b) is not type(a) and not (type(a) is np.memmap and type(b) is np.ndarray):
        why = ("subclass", f"type {type(b).__name__} instead of {type(a).__name__}")
    elif tuple(b.shape) != tuple(a.shape):
        why = ("shape", f"shape {b.shape} instead of {a.shape}")
    elif exact_dtype is True and (b.dtype != a.dtype or b.dtype.str != a.dtype.str or b.dtype.descr != a.dtype.descr):
        why = ("dtype", f"dtype {b.dtype.descr if b.dtype.names else b.dtype.str} instead of {a.dtype.descr if a.dtype.names else a.dtype.str}")
    elif exact_dtype is not True and b.dtype != a.dtype.newbyteorder("=") and b.dtype.descr != a.dtype.descr:
        why = ("dtype", f"dtype {b.dtype.descr} instead of {a.dtype.descr} (or its native-byte-order form)")
    else:
        ref = a if b.dtype.descr == a.dtype.descr else np.asarray(a).astype(a.dtype.newbyteorder("="))
        if not gen_np.same_bytes(np.asarray(ref), np.asarray(b)):
            why = ("bytes", "element bytes differ")
        elif a.ndim >= 2 and a.size and a.flags.f_contiguous and not a.flags.c_contiguous and not b.flags.f_contiguous:
            why = ("order", "Fortran-ordered array came back not F-contiguous")
        elif a.ndim >= 2 and a.size and a.flags.c_contiguous and not a.flags.f_contiguous and not b.flags.c_contiguous:
            why = ("order", "C-ordered array came back not C-contiguous")
        elif getattr(a, "tag", None) != getattr(b, "tag", None):
            why = ("subclass", f"subclass attribute {getattr(b, 'tag', None)!r} instead of {getattr(a, 'tag', None)!r}")
    if why:
        sub = type(a).__name__
        ctx.violation(f"{key_prefix}:{why[0]}" + (f":subclass={sub}" if sub != "ndarray" else ""), f"{why[1]}; {desc}", desc)
        return True
    return False


def run_roundtrip(case, ctx):
    import joblib
    import numpy as np
    rng = harness.rng_for(ctx.seed, ID, "rt", case["i"])
    d = harness.mkscratch("vjl-c19-")
    try:
        for combo in range(14):
            a, adesc = gen_array(rng)
            container = rng.choice(["bare", "bare", "list", "dict", "obj", "multi", "twice"])
            compress = rng.choice([0, 0, 0, 1, 3, 9, "zlib", "gzip", "bz2", "lzma", "xz", ("zlib", 1), ("gzip", 6), ("bz2", 9), ("lzma", 1)])
            protocol = rng.choice([None, 2, 3, 4, 5])
            target = rng.choice(["path", "path", "file", "bytesio"])
            others = [gen_array(rng)[0] for _ in range(2)] if container == "multi" else []
            if container == "bare":
                obj = a
            elif container == "list":
                obj = [1, a, "x"]
            elif container == "dict":
                obj = {"k": a, "n": None}
            elif container == "obj":
                from vlib.userclasses import Point
                obj = Point(a, [a.dtype.str])
            elif container == "twice":
                # ONE array referenced twice (and once more inside a nested container): a shared reference, as pickle preserves it
                obj = [a, {"again": a}, a]
            else:
                obj = [others[0], {"a": a}, others[1]]
            desc = dict(adesc, container=container, compress=compress, protocol=protocol, target=target)
            path = os.path.join(d, f"a{combo}.pkl")
            ctx.evaluated()
            try:
                with warnings.catch_warnings():
                    warnings.simplefilter("ignore")
                    if target == "path":
                        joblib.dump(obj, path, compress=compress, protocol=protocol)
                        loaders = [lambda **kw: joblib.load(path, **kw)]
                    elif target == "file":
                        with open(path, "wb") as f:
                            joblib.dump(obj, f, compress=compress, protocol=protocol)
                        loaders = [lambda **kw: joblib.load(open(path, "rb"), **kw)]
                    else:
                        bio = io.BytesIO()
                        joblib.dump(obj, bio, compress=compress, protocol=protocol)
                        loaders = [lambda **kw: joblib.load(io.BytesIO(bio.getvalue()), **kw)]
                    got_exact = guarded(lambda: loaders[0](ensure_native_byte_order=False))
                    got_default = guarded(lambda: loaders[0]())
            except Exception as e:  # noqa
                ctx.violation("round-trip:raises" + (f":subclass={adesc['subclass']}" if adesc["subclass"] != "ndarray" else ""),
                              f"dump/load raised {type(e).__name__}: {str(e)[:200]}; {desc}", desc)
                continue
            ctx.count("round_trips")
            if adesc["subclass"] != "ndarray":
                ctx.count("subclass_round_trips")

            def pick(o):
                if container == "bare":
                    return o
                if container == "list":
                    return o[1]
                if container == "dict":
                    return o["k"]
                if container == "obj":
                    return o.x
                if container == "twice":
                    return o[0]
                return o[1]["a"]

            try:
                bad = check_loaded(ctx, a, pick(got_exact), desc, True, "round-trip")
                if not bad:
                    check_loaded(ctx, a, pick(got_default), dict(desc, load="default (native byte order)"), False, "round-trip-default")
                if container == "twice" and not bad:
                    ctx.count("round_trips_of_an_array_referenced_twice")
                    for g in (got_exact[1]["again"], got_exact[2]):
                        bad = bad or check_loaded(ctx, a, g, dict(desc, which="second / third reference to the same array"), True, "round-trip")
                    if not bad and not (got_exact[0] is got_exact[2] and got_exact[0] is got_exact[1]["again"]):
                        ctx.violation("round-trip:aliasing-lost:array-referenced-twice", f"one array referenced three times came back as {len({id(got_exact[0]), id(got_exact[1]['again']), id(got_exact[2])})} "
                                                                                         f"distinct arrays (equal values): writing to one no longer shows in the others; {desc}", desc)
                if container == "multi" and not bad:
                    for o, g in ((others[0], got_exact[0]), (others[1], got_exact[2])):
                        check_loaded(ctx, o, g, dict(desc, which="neighbour array in the same file"), True, "round-trip")
            except Exception as e:  # noqa
                ctx.violation("round-trip:container-shape", f"loaded object has another structure: {type(e).__name__}: {e}; {desc}", desc)
            if a.size:
                ctx.sig((adesc["dtype"], adesc["shape"], adesc["layout"], adesc["subclass"], container, repr(compress), protocol, target))
            if a.nbytes > (1 << 18):
                ctx.count("arrays_spanning_several_read_chunks")
            if a.nbytes > (16 << 20):
                ctx.count("arrays_spanning_several_write_chunks")
            if case["i"] % 60 == 0 and combo == 0:
                ctx.sample(desc)
    finally:
        shutil.rmtree(d, ignore_errors=True)


def run_mmap(case, ctx):
    import joblib
    import numpy as np
    from vlib import gen_np
    rng = harness.rng_for(ctx.seed, ID, "mm", case["i"])
    d = harness.mkscratch("vjl-c19m-")
    try:
        for combo in range(5):
            arrs = []
            for _ in range(rng.choice([1, 1, 2, 3])):
                a, adesc = gen_array(rng)
                if adesc["subclass"] not in ("ndarray",):
                    a, adesc = np.asarray(a), dict(adesc, subclass="ndarray")
                arrs.append((a, adesc))
            obj = [x[0] for x in arrs] if len(arrs) > 1 else arrs[0][0]
            if rng.random() < 0.3:
                obj = {"pre": "x" * rng.randint(0, 40), "arrs": obj}
            path = os.path.join(d, f"m{combo}.pkl")
            mode = rng.choice(["r", "r", "r+", "c", "w+"])
            protocol = rng.choice([None, 2, 4, 5])
            joblib.dump(obj, path, protocol=protocol)
            before = open(path, "rb").read()
            desc = dict(arrays=[x[1] for x in arrs], mmap_mode=mode, protocol=protocol)
            ctx.evaluated()
            try:
                with warnings.catch_warnings(record=True) as wlist:
                    warnings.simplefilter("always")
                    got = guarded(lambda: joblib.load(path, mmap_mode=mode))
            except Exception as e:  # noqa
                ctx.violation("mmap:raises", f"load(mmap_mode={mode!r}) raised {type(e).__name__}: {str(e)[:200]}; {desc}", desc)
                continue
            g = got["arrs"] if isinstance(got, dict) else got
            gl = g if isinstance(g, list) else [g]
            ctx.count("mmap_loads")
            for (a, adesc), b in zip(arrs, gl):
                dd = dict(desc, array=adesc)
                if a.dtype.hasobject:
                    check_loaded(ctx, a, b, dd, True, "mmap-object-array")
                    continue
                if not isinstance(b, np.memmap):
                    ctx.violation("mmap:not-a-memmap", f"array loaded with mmap_mode={mode!r} is {type(b).__name__}; {dd}", dd)
                    continue
                if check_loaded(ctx, np.asarray(a), np.asarray(b), dd, True, "mmap"):
                    continue
                if not os.path.samefile(b.filename, path):
                    ctx.violation("mmap:wrong-file", f"memmap on {b.filename}; {dd}", dd)
                if b.size and (b.offset % 16 or b.ctypes.data % 16):
                    ctx.violation("mmap:misaligned", f"memmap offset {b.offset} (data pointer % 16 = {b.ctypes.data % 16}); {dd}", dd)
                raw_at = before[b.offset:b.offset + b.nbytes]
                if b.size and raw_at != np.asarray(a).tobytes(order="F" if (a.flags.f_contiguous and not a.flags.c_contiguous) else "C"):
                    ctx.violation("mmap:offset-points-elsewhere", f"file bytes at the memmap's offset are not the array's bytes; {dd}", dd)
                if a.size:
                    ctx.sig((adesc["dtype"], adesc["shape"], adesc["layout"], mode, len(arrs)))
            # write-through semantics
            target = next((b for (a, _), b in zip(arrs, gl) if isinstance(b, np.memmap) and b.size and b.dtype.kind in "iuf"), None)
            if target is not None and mode in ("r+", "w+", "c"):
                try:
                    flat = target.reshape(-1) if target.flags.c_contiguous else target.T.reshape(-1)
                    flat[0] = flat[0] + 1 if flat[0] == flat[0] and abs(float(flat[0])) < 100 else 1
                    target.flush()
                except Exception as e:  # noqa
                    ctx.violation("mmap:not-writable", f"mode {mode!r} memmap rejected a write: {type(e).__name__}: {e}; {desc}", desc)
                    continue
                after = open(path, "rb").read()
                if mode == "c" and after != before:
                    ctx.violation("mmap:copy-on-write-reached-file", f"a write through a mode 'c' memmap changed the file; {desc}", desc)
                if mode in ("r+", "w+") and after == before:
                    ctx.violation("mmap:write-did-not-reach-file", f"a write through a mode {mode!r} memmap did not change the file; {desc}", desc)
                ctx.count("mmap_write_semantics_checked")
            elif target is not None and mode == "r":
                if target.flags.writeable:
                    ctx.violation("mmap:read-only-writable", f"mode 'r' memmap is writeable; {desc}", desc)
            del got, g, gl, target
    finally:
        shutil.rmtree(d, ignore_errors=True)


def run_workers(case, ctx):
    rng = harness.rng_for(ctx.seed, ID, "wk", case["i"])
    from vlib import gen_np
    backend = ["loky", "multiprocessing"][case["i"] % 2]
    specs = []
    for _ in range(5):
        dt = gen_np.pick_dtype(rng)
        specs.append(dict(dtype=dt, shape=rng.choice([[7], [3, 4], [2, 3, 4], [33], [600], [40, 50], [0], []]),
                          layout=rng.choice(["C", "F", "sliced", "transposed", "offset-view"]),
                          max_nbytes=rng.choice(["none", "size-1", "size", "size+1", "1K", "0"]),
                          mutate_between_calls=rng.random() < 0.3,
                          memmap_backed=rng.random() < 0.4, mm_offset=rng.choice([0, 16, 64, 4096]), mm_slice=rng.random() < 0.5,
                          mm_view=rng.choice([None, None, "T", "rev", "rev-last", "step", "inner", "swap", "plain-ndarray", "plain-ndarray-T", "rev-all", "newaxis"]),
                          mmap_mode=rng.choice(["r", "r", "c", "r+", "w+", None])))      # None: documented as 'memmapping disabled'
    views = ["T", "rev", "rev-last", "step", "inner", "swap", "plain-ndarray", "plain-ndarray-T", "rev-all", "newaxis", "as-other-dtype", "as-swapped-dtype", "as-bytes"]
    for j in range(4):
        # views of file-backed arrays with at least two dimensions: every kind of view comes up in every few cases
        specs.append(dict(dtype=gen_np.pick_dtype(rng, allow_object=False), shape=rng.choice([[3, 4], [2, 3, 4], [40, 50], [5, 1], [4, 4]]),
                          layout=rng.choice(["C", "F"]), max_nbytes=rng.choice(["none", "size+1", "1K", "0"]), memmap_backed=True,
                          mm_offset=rng.choice([0, 16, 64, 4096]), mm_slice=rng.random() < 0.3, mm_view=views[(case["i"] * 4 + j) % len(views)],
                          mm_private_write=rng.random() < 0.25,
                          mmap_mode=rng.choice(["r", "c", "r+", "w+", None])))
    d = harness.mkscratch("vjl-c19w-")
    try:
        cf, of = os.path.join(d, "cfg.json"), os.path.join(d, "out.json")
        with open(cf, "w") as f:
            json.dump(dict(backend=backend, arrays=specs, seed=rng.randrange(1 << 30), dir=d), f)
        r = harness.run_py([CHILD, cf, of], timeout=90, result_file=of, env_extra={"VERIF_USE_DEPS": "1"})
        ctx.evaluated()
        if r["result"] is None:
            ctx.inconclusive("worker-child-failed", dict(backend=backend, rc=r["rc"], err=r["err"][-700:]))
            return
        for run in r["result"]["runs"]:
            spec = run["spec"]
            desc = dict(spec, backend=backend, size=run["size"])
            ctx.count("worker_runs")
            if spec.get("memmap_backed") and spec.get("mm_view") and run["size"]:
                ctx.count("worker_runs_with_a_view_of_a_file_backed_array")
            if spec.get("memmap_backed") and spec.get("mm_private_write") and run["size"]:
                ctx.count("worker_runs_with_a_privately_modified_copy_on_write_mapping")
            if "exc" in run:
                ctx.violation("workers:raises", f"Parallel with an array argument raised {run['exc']}; {desc}", desc)
                continue
            if spec.get("second_call_after_in_place_change"):
                ctx.count("second_calls_after_an_in_place_change_checked")
            for g in run["got"]:
                w = run["want"]
                if g["memmap"] or g["base_memmap"]:
                    ctx.count("worker_memmapped_args")
                mm = g["memmap"] or g["base_memmap"]
                bad = None
                if g["desc"]["shape"] != w["desc"]["shape"]:
                    bad = "shape"
                elif mm and g["desc"]["descr"] != w["desc"]["descr"]:
                    bad = "descr"      # joblib's own path (memmapping) keeps the dtype exactly
                elif not mm and g["desc"]["native_descr"] != w["desc"]["native_descr"]:
                    bad = "native_descr"   # pickled by numpy itself: byte order may be normalised by numpy
                if bad:
                    ctx.violation(f"workers:{bad}", f"task saw {bad} {g['desc'][bad]} but the parent passed {w['desc'][bad]} (memmapped={mm}); {desc}", desc)
                else:
                    if g["digest"] != w["digest"]:
                        ctx.violation("workers:values:private-changes-of-a-copy-on-write-mapping" if spec.get("mm_private_write") else
                                      ("workers:values:stale-dump-after-in-place-change" if spec.get("second_call_after_in_place_change") and mm else "workers:values"), f"task saw different values (first {g['first']}) than the parent passed (memmapped={g['memmap']}); {desc}", desc)
            if run["size"]:
                ctx.sig((backend, json.dumps(spec, sort_keys=True)))
    finally:
        shutil.rmtree(d, ignore_errors=True)
