"""C20 - tracked temporary resources are deleted exactly when their last user is gone.

Monitor: the real loky resource tracker process, driven through its pipe by 1-3
real client processes (loky's ResourceTracker API on an inherited fd) issuing
seeded request sequences; after every request the driver synchronises with the
tracker through a sentinel (the pipe is FIFO and the tracker loop sequential)
and compares the file system with a reference ref-count registry.
"""

import json
import os
import shutil
import signal
import subprocess
import time

from vlib import harness

ID = "C20"
LEVEL = "exploration"
RULE = ("a case is one tracker process + 1-3 client processes and a seeded script of 10-40 requests REGISTER / MAYBE_UNLINK / "
        "UNREGISTER over <= 4 files and <= 2 folders (folders containing tracked files and nested tracked folders), resources removed by their owner while still registered, paths created again after they were deleted or while a name is registered / has just reached zero with its path missing (joblib registers folders before creating them), requests on missing paths, directories registered as files, salted with malformed lines (garbage, "
        "non-ASCII, unknown type, unknown command, decrement / unregister of unknown names), clients exiting normally or "
        "SIGKILLed at seeded positions, then end of input; the disk is compared with a ref-count model after every "
        "synchronised request and after the tracker exited; plus end-to-end runs (loky Parallel call with memmapped arguments, parent exiting or "
        "SIGKILLed during / between / after calls: the temp folder must vanish once parent and workers are gone); distinct_nontrivial counts distinct scripts with at least "
        "one deletion and one malformed or unbalanced request"
        " Requests under the OTHER resource type than a path's own (stray MAYBE_UNLINK / UNREGISTER) are part of the malformed requests.")
ASSUMPTIONS = [
    "synchronisation: a sentinel file registered and MAYBE_UNLINKed by the driver after a request disappears only after "
    "every earlier request was processed (FIFO pipe, sequential loop)",
    "reference model: type -> name -> count; REGISTER increments, MAYBE_UNLINK decrements and deletes at zero, UNREGISTER "
    "forgets the name without deleting; a file inside a folder whose own count reaches zero disappears with the folder",
    "a sentinel still present after 20 s while the tracker is alive counts as 'not deleted at zero'; a dead tracker as 'tracker stopped'",
]
SHARDS = {"quick": 10, "thorough": 14}
FLOORS = {"quick": {"e2e_runs": 6, "scripts": 120, "requests_checked": 1500, "malformed_requests": 200, "clients_killed": 40, "deletions_at_zero": 100, "zero_reached_while_path_missing": 40, "created_again_after_zero_while_missing": 30, "requests_longer_than_4000_bytes": 60, "requests_under_the_other_resource_type": 25, "clients_ended_by_a_group_signal": 16, "group_signals_sent_right_after_the_tracker_was_spawned": 5},
          "thorough": {"e2e_runs": 50, "scripts": 2500, "requests_checked": 40000, "malformed_requests": 4000, "clients_killed": 800, "deletions_at_zero": 2000, "zero_reached_while_path_missing": 800, "created_again_after_zero_while_missing": 600, "requests_longer_than_4000_bytes": 1200, "clients_ended_by_a_group_signal": 160, "group_signals_sent_right_after_the_tracker_was_spawned": 50}}
CLIENT = os.path.join(harness.VERIF, "checks", "c20_client.py")


NEEDS_DEPS = ["numpy"]
E2E = os.path.join(harness.VERIF, "checks", "c20_e2e_child.py")


def cases(tier, seed):
    n = 140 if tier == "quick" else 3000
    for i in range(n):
        yield dict(i=i)
    for i in range(10 if tier == "quick" else 80):
        yield dict(i=i, e2e=True)
    for i in range(24 if tier == "quick" else 240):
        yield dict(i=i, sig=True)


def pid_alive(pid):
    try:
        with open(f"/proc/{pid}/stat") as f:
            return f.read().rsplit(")", 1)[1].split()[0] != "Z"
    except OSError:
        return False


def run_e2e(case, ctx):
    """the tracker through joblib itself: a loky Parallel call whose big argument is memmapped into a temp folder;
    the parent exits normally or is SIGKILLed at a seeded instant; once the parent and every worker are gone the folder
    and every file in it must be gone too (and must not vanish while a call still uses it)"""
    rng = harness.rng_for(ctx.seed, ID, "e2e", case["i"])
    d = harness.mkscratch("vjl-c20e-")
    try:
        temp = os.path.join(d, "mm")
        os.makedirs(temp)
        mode = rng.choice(["normal", "kill-during-call", "kill-between-calls", "kill-after-calls"])
        cfg = dict(dir=d, temp=temp, calls=2, tasks=4, dur=0.15, idle=2, linger=3 if mode == "kill-after-calls" else 0)
        cf = os.path.join(d, "cfg.json")
        with open(cf, "w") as f:
            json.dump(cfg, f)
        log = open(os.path.join(d, "child.log"), "wb")
        p = subprocess.Popen([harness.PY, E2E, cf], stdin=subprocess.DEVNULL, stdout=log, stderr=log,
                             env=harness.child_env({"VERIF_USE_DEPS": "1"}), start_new_session=True)
        ctx.evaluated()
        desc = dict(mode=mode)
        t0 = time.monotonic()
        killed = False
        saw_folder = False
        while time.monotonic() - t0 < 60:
            entries = os.listdir(temp)
            saw_folder = saw_folder or bool(entries)
            if mode == "kill-during-call" and entries and os.path.exists(os.path.join(d, "pids.txt")) and \
                    len(open(os.path.join(d, "pids.txt")).read().splitlines()) >= 2 + rng.randint(0, 2):
                killed = True
            elif mode == "kill-between-calls" and os.path.exists(os.path.join(d, "call0.done")):
                killed = True
            elif mode == "kill-after-calls" and os.path.exists(os.path.join(d, "done")):
                killed = True
            if killed:
                time.sleep(rng.choice([0, 0.01, 0.05]))
                try:
                    os.kill(p.pid, signal.SIGKILL)
                except OSError:
                    pass
                break
            if p.poll() is not None:
                break
            time.sleep(0.005)
        try:
            p.wait(60)
        except subprocess.TimeoutExpired:
            ctx.inconclusive("e2e-child-stuck", desc)
            return
        log.close()
        if mode == "normal" and p.returncode != 0:
            ctx.inconclusive("e2e-child-failed", open(os.path.join(d, "child.log"), errors="replace").read()[-400:])
            return
        pids = set()
        memmapped = 0
        try:
            for line in open(os.path.join(d, "pids.txt")).read().splitlines():
                a = line.split()
                pids.add(int(a[0]))
                memmapped += a[1] == "1"
        except OSError:
            pass
        if not saw_folder or not memmapped:
            ctx.inconclusive("e2e-no-memmapping-observed", desc)
            return
        # wait for every client of the tracker (parent and workers) to be gone, then for the clean-up
        t1 = time.monotonic()
        while any(pid_alive(x) for x in pids) and time.monotonic() - t1 < 40:
            time.sleep(0.05)
        if any(pid_alive(x) for x in pids):
            ctx.inconclusive("e2e-clients-still-alive", dict(desc, alive=[x for x in pids if pid_alive(x)]))
            return
        t2 = time.monotonic()
        while os.listdir(temp) and time.monotonic() - t2 < 20:
            time.sleep(0.05)
        ctx.count("e2e_runs")
        ctx.count(f"e2e_{mode}")
        left = os.listdir(temp)
        if left:
            trackers = [x for x in harness.descendants(p.pid) if pid_alive(x)]
            if trackers:
                ctx.inconclusive("e2e-tracker-still-running", dict(desc, left=left[:3], procs=trackers))
            else:
                ctx.violation("e2e:temp-folder-leaked", f"after the parent ({mode}) and all loky workers were gone and no process of the session is left, "
                                                        f"the memmapping folder is still there: {left[:3]}", dict(desc, left=left[:5]))
        ctx.sig(("e2e", mode, killed, len(pids)))
    finally:
        try:
            harness.kill_session(p.pid)
        except Exception:  # noqa
            pass
        shutil.rmtree(d, ignore_errors=True)


def run_sig(case, ctx):
    """"killed" as a terminal or `killall` does it: the client's whole process group - the tracker is a member - receives
    SIGINT or SIGTERM, at a seeded delay after the registrations were written (delay 0: the tracker is still starting
    up and has the signal pending behind the mask it inherited).  The client is gone afterwards; whatever it had
    registered must be deleted."""
    rng = harness.rng_for(ctx.seed, ID, "sig", case["i"])
    d = harness.mkscratch("vjl-c20s-")
    p = None
    try:
        res = []
        for j in range(rng.randint(1, 3)):
            f = os.path.join(d, f"res{j}.bin")
            open(f, "wb").write(b"x" * 10)
            res.append((f, "file"))
        if rng.random() < 0.6:
            fo = os.path.join(d, "dir0")
            os.makedirs(fo)
            open(os.path.join(fo, "in0.bin"), "wb").write(b"y")
            res.append((fo, "folder"))
            if rng.random() < 0.5:
                res.append((os.path.join(fo, "in0.bin"), "file"))
        sig = ["SIGTERM", "SIGINT"][case["i"] % 2]
        delay = [0, 0, 0.002, 0.01, 0.05, 0.3][(case["i"] // 2) % 6]
        warm = rng.choice([0, 0, 0.3]) if delay else 0
        cfg = dict(dir=d, resources=res, signal=sig, delay=delay, warm=warm)
        cf = os.path.join(d, "cfg.json")
        with open(cf, "w") as f:
            json.dump(cfg, f)
        log = open(os.path.join(d, "child.log"), "wb")
        p = subprocess.Popen([harness.PY, os.path.join(harness.VERIF, "checks", "c20_sig_child.py"), cf], stdin=subprocess.DEVNULL, stdout=log, stderr=log,
                             env=harness.child_env(), start_new_session=True)
        ctx.evaluated()
        desc = dict(signal=sig, delay=delay, warm=warm, resources=[[os.path.basename(a), b] for a, b in res])
        try:
            p.wait(60)
        except subprocess.TimeoutExpired:
            ctx.inconclusive("sig-child-stuck", desc)
            return
        log.close()
        if not os.path.exists(os.path.join(d, "tracker.pid.done")):
            ctx.inconclusive("sig-child-did-not-register", open(os.path.join(d, "child.log"), errors="replace").read()[-400:])
            return
        tpid = int(open(os.path.join(d, "tracker.pid.done")).read())
        expected_rc = -signal.SIGTERM if sig == "SIGTERM" else 1
        if p.returncode not in (expected_rc, -signal.SIGINT):
            ctx.inconclusive("sig-child-ended-otherwise", dict(desc, rc=p.returncode, log=open(os.path.join(d, "child.log"), errors="replace").read()[-300:]))
            return
        ctx.count("clients_ended_by_a_group_signal")
        if delay == 0:
            ctx.count("group_signals_sent_right_after_the_tracker_was_spawned")
        t0 = time.monotonic()
        left = [a for a, _ in res if os.path.lexists(a)]
        while left and time.monotonic() - t0 < 20 and pid_alive(tpid):
            time.sleep(0.02)
            left = [a for a, _ in res if os.path.lexists(a)]
        if left and pid_alive(tpid):
            t0 = time.monotonic()
            while left and time.monotonic() - t0 < 10:
                time.sleep(0.05)
                left = [a for a, _ in res if os.path.lexists(a)]
            if left:
                ctx.inconclusive("sig-tracker-still-running", dict(desc, left=[os.path.basename(x) for x in left]))
                return
        time.sleep(0.05)
        left = [a for a, _ in res if os.path.lexists(a)]
        ctx.sig(("sig", sig, delay, bool(warm), len(res)))
        if left:
            ctx.violation(f"group-signal:registered-resources-leaked:{sig}:{'at-tracker-start-up' if delay < 0.02 and not warm else 'later'}",
                          f"the client registered {len(res)} resources and its process group then received {sig} ({delay}s later); the client is gone, "
                          f"the tracker process (pid {tpid}) is gone too and {len(left)} registered resources are still on disk: {[os.path.basename(x) for x in left]}",
                          dict(desc, left=[os.path.basename(x) for x in left], tracker_log=open(os.path.join(d, "child.log"), errors="replace").read()[-300:]))
    finally:
        if p is not None:
            try:
                harness.kill_session(p.pid)
            except Exception:  # noqa
                pass
        shutil.rmtree(d, ignore_errors=True)


class Client:
    def __init__(self, wfd, tracker_pid, log):
        self.p = subprocess.Popen([harness.PY, CLIENT, str(wfd), str(tracker_pid)], stdin=subprocess.PIPE, stdout=subprocess.PIPE,
                                  stderr=log, env=harness.child_env(), pass_fds=[wfd], text=True, bufsize=1)
        self.alive = True
        assert self.p.stdout.readline().strip() == "ready"

    def send(self, **c):
        self.p.stdin.write(json.dumps(c) + "\n")
        self.p.stdin.flush()
        return self.p.stdout.readline().strip()

    def exit(self):
        if self.alive:
            try:
                self.send(op="EXIT")
            except (BrokenPipeError, OSError):
                pass
            self.p.wait(10)
            self.alive = False

    def kill(self):
        if self.alive:
            self.p.send_signal(signal.SIGKILL)
            self.p.wait(10)
            self.alive = False


def run_case(case, ctx):
    if case.get("e2e"):
        return run_e2e(case, ctx)
    if case.get("sig"):
        return run_sig(case, ctx)
    rng = harness.rng_for(ctx.seed, ID, case["i"])
    d = harness.mkscratch("vjl-c20-")
    tracker = None
    clients = []
    wfd = None
    try:
        r, wfd = os.pipe()
        errf = open(os.path.join(d, "tracker.err"), "wb")
        cmd = f"from joblib.externals.loky.backend.resource_tracker import main; main({r}, 0)"
        tracker = subprocess.Popen([harness.PY, "-c", cmd], pass_fds=[r], stdin=subprocess.DEVNULL, stdout=subprocess.DEVNULL, stderr=errf,
                                   env=harness.child_env(), start_new_session=True)
        os.close(r)
        clog = open(os.path.join(d, "clients.err"), "wb")
        nclients = rng.choice([1, 2, 2, 3])
        clients = [Client(wfd, tracker.pid, clog) for _ in range(nclients)]
        # names with separator characters (':' splits the request line), spaces and a long one
        # ... and names that merely START like a tracked folder's path (dir0.lock next to the folder dir0)
        styles = ["res{i}.bin", "res{i}.bin", "re:s:{i}.bin", "res {i} x.bin", "res{i}:", "r" * 180 + "{i}.bin", "dir{i}.lock", "dir{i}x.bin"]
        files = [os.path.join(d, rng.choice(styles).format(i=i)) for i in range(rng.randint(1, 4))]
        folders = [os.path.join(d, f"dir{i}") for i in range(rng.choice([0, 1, 1, 2]))]
        inside = {}
        for fo in list(folders):
            os.makedirs(fo)
            for j in range(rng.randint(0, 2)):
                p = os.path.join(fo, f"in{j}.bin")
                inside[p] = fo
            if rng.random() < 0.4:
                # a tracked folder nested in a tracked folder
                sub = os.path.join(fo, "sub")
                os.makedirs(sub)
                folders.append(sub)
                inside[sub] = fo
        if rng.random() < 0.35:
            # a path just below PATH_MAX (its request line is longer than a pipe buffer / a page): nested plain directories
            target = rng.choice([4060, 4070, 4078, 4081, 4085, 4090, 4094, 4095])
            deep = os.path.join(d, "deep")
            while len(deep) + 1 + 200 + 1 + 8 <= target:
                deep = os.path.join(deep, "n" * 200)
            pad = target - len(deep) - 1 - 4
            if 1 <= pad <= 250:
                os.makedirs(deep)
                files.append(os.path.join(deep, "f" * pad + ".bin"))
                ctx.count("scripts_with_a_path_near_PATH_MAX")
        tracked_files = files + [p for p in inside if p not in folders]
        decoys = [os.path.join(d, "decoy.bin")] + [os.path.join(fo, "decoy.bin") for fo in folders]
        for p in tracked_files + decoys:
            open(p, "w").close()
        count = {"file": {}, "folder": {}}
        ever = set()
        nseq = 0
        stats = dict(deletions=0, malformed=0)
        desc = dict(clients=nclients, files=len(files), folders=len(folders), inside=len(inside))
        script = []

        def sync():
            nonlocal nseq
            nseq += 1
            s = os.path.join(d, f"sentinel{nseq}")
            open(s, "w").close()
            os.write(wfd, f"REGISTER:{s}:file\nMAYBE_UNLINK:{s}:file\n".encode())
            t0 = time.monotonic()
            while os.path.exists(s):
                if tracker.poll() is not None:
                    return "tracker-died"
                if time.monotonic() - t0 > 20:
                    return "sentinel-stuck"
                time.sleep(0.0005)
            return None

        present = set(tracked_files + folders + decoys)     # reference model of the disk

        def expect_exists(p):
            return p in present

        def model_remove(p):
            for q in [q for q in present if q == p or q.startswith(p + os.sep)]:
                present.discard(q)

        def check(after):
            for p in tracked_files + folders + decoys:
                exp = expect_exists(p)
                if os.path.exists(p) != exp:
                    kind = "decoy" if p in decoys else ("folder" if p in folders else "file")
                    if os.path.exists(p):
                        key = f"not-deleted-at-zero:{kind}"
                        what = f"{os.path.basename(p)} still exists although its count returned to zero"
                    else:
                        c = count["folder" if p in folders else "file"].get(p)
                        key = ("never-registered-path-deleted" if (p in decoys or p not in ever) else
                               ("deleted-while-count-positive:" + kind if c else "deleted-after-unregister:" + kind))
                        what = f"{os.path.basename(p)} disappeared (model count {c}, ever registered {p in ever})"
                    ctx.violation(key, f"after {after}: {what}; script so far {script[-8:]}", dict(desc, script=list(script)))
                    return False
            return True

        nreq = rng.randint(10, 40)
        ok = True
        # profile of the script: 'churn' scripts remove and re-create the tracked paths often and address missing paths often
        churn = rng.random() < 0.4
        b_mal, b_rm, b_create, b_wrong, b_exit = (0.08, 0.20, 0.36, 0.39, 0.44) if churn else (0.12, 0.17, 0.26, 0.30, 0.37)
        p_existing = 0.45 if churn else 0.75
        if churn:
            ctx.count("churn_scripts")
        planned = []    # forced steps (op, path) of a directed sub-sequence, executed before seeded choices resume

        def rt_of(p):
            return "folder" if p in folders else "file"

        def creatable():
            return [p for p in tracked_files + folders if p not in present and (inside.get(p) is None or inside[p] in present)]

        def do_rm(p):
            if p in folders:
                shutil.rmtree(p)
            else:
                os.unlink(p)
            model_remove(p)
            script.append(("driver", "EXTERNAL_RM", os.path.basename(p)))
            ctx.count("externally_removed_while_registered")

        def do_create(p):
            if p in folders:
                os.makedirs(p)
            else:
                open(p, "w").close()
            present.add(p)
            script.append(("driver", "EXTERNAL_CREATE", os.path.basename(p), "count=%s" % count[rt_of(p)].get(p)))
            ctx.count("paths_created_again")

        def do_req(cl, ci, op, p):
            rt = rt_of(p)
            c = count[rt].get(p, 0)
            if p not in present:
                ctx.count("requests_on_missing_paths")
            if len(p) > 400:
                # loky's client API refuses such names: the request goes down the pipe as a raw line
                cl.send(op="RAW", hex=f"{op}:{p}:{rt}\n".encode().hex())
                ctx.count("requests_longer_than_4000_bytes" if len(p) > 4000 else "requests_longer_than_400_bytes")
            else:
                cl.send(op=op, name=p, rtype=rt)
            script.append((ci, op, os.path.basename(p)[:40] + (f"..[path of {len(p)} chars]" if len(p) > 400 else ""), rt))
            if op == "REGISTER":
                count[rt][p] = c + 1
                ever.add(p)
            elif op == "MAYBE_UNLINK":
                if p in count[rt]:
                    count[rt][p] -= 1
                    if count[rt][p] == 0:
                        del count[rt][p]
                        if p in present:
                            stats["deletions"] += 1
                        else:
                            ctx.count("zero_reached_while_path_missing")
                            zero_missing.add(p)
                        model_remove(p)
                else:
                    stats["malformed"] += 1   # decrement of a name the tracker does not know
            elif op == "UNREGISTER":
                if p in count[rt]:
                    del count[rt][p]
                else:
                    stats["malformed"] += 1

        zero_missing = set()
        for step in range(nreq + 12):
            if step >= nreq and not planned:
                break
            live = [c for c in clients if c.alive]
            if not live:
                break
            cl = rng.choice(live)
            ci = clients.index(cl)
            k = rng.random()
            existing = [p for p in tracked_files + folders if expect_exists(p)]
            if planned:
                op, p = planned.pop(0)
                if op == "RM":
                    if p not in present:
                        continue
                    do_rm(p)
                elif op == "CREATE":
                    if p not in creatable():
                        continue
                    do_create(p)
                    if p in zero_missing:
                        ctx.count("created_again_after_zero_while_missing")
                else:
                    do_req(cl, ci, op, p)
            elif churn and k < 0.07:
                # directed: a name reaches zero while its path is missing (the clean-up can only fail), the path is created
                # afterwards - what follows (more requests, or the end of input) must treat it as never seen
                p = rng.choice(folders + folders + tracked_files) if folders else rng.choice(tracked_files)
                c = count[rt_of(p)].get(p, 0)
                planned = ([("REGISTER", p)] if c == 0 else []) + [("RM", p)] + [("MAYBE_UNLINK", p)] * max(c, 1) + \
                    [("MAYBE_UNLINK", p)] * rng.choice([0, 0, 1]) + [("CREATE", p)] + \
                    rng.choice([[], [], [("REGISTER", p), ("REGISTER", p), ("MAYBE_UNLINK", p)], [("REGISTER", p), ("UNREGISTER", p)]])
                continue
            elif k < b_mal:
                # malformed / unbalanced
                kind = rng.choice(["garbage", "nonascii", "unknown-type", "unknown-cmd", "dec-unknown", "unreg-unknown", "no-colon", "empty", "cross-type", "cross-type", "cross-type"])
                if kind == "cross-type":
                    # a release / withdrawal of a path under the OTHER resource type than the one it is (or may be) registered
                    # with: that type's registry does not know the name - the request must not touch the path's real entry
                    p = rng.choice(existing) if existing and rng.random() < 0.8 else rng.choice(tracked_files + folders)
                    other = "file" if rt_of(p) == "folder" else "folder"
                    if len(p) <= 400 and p not in count[other]:
                        op = rng.choice(["MAYBE_UNLINK", "MAYBE_UNLINK", "UNREGISTER"])
                        cl.send(op=op, name=p, rtype=other)
                        script.append((ci, op + "_UNDER_THE_OTHER_TYPE", os.path.basename(p)[:40], other, "count=%s" % count[rt_of(p)].get(p)))
                        stats["malformed"] += 1
                        ctx.count("requests_under_the_other_resource_type")
                        why = sync()
                        ctx.count("requests_checked")
                        if why or not check(script[-1]):
                            if why:
                                ctx.violation("tracker-stopped" if why == "tracker-died" else "tracker-stopped-answering", f"after {script[-1]}", dict(desc, script=list(script)))
                            ok = False
                            break
                    continue
                raw = {"garbage": b"\x00\x01\x02 what:ever\n", "nonascii": "REGISTER:/tmp/é:file\n".encode("utf8"),
                       "unknown-type": f"REGISTER:{d}/x:noexist\n".encode(), "unknown-cmd": f"FROBNICATE:{d}/x:file\n".encode(),
                       "dec-unknown": f"MAYBE_UNLINK:{d}/never-registered:file\n".encode(), "unreg-unknown": f"UNREGISTER:{d}/never-registered:folder\n".encode(),
                       "no-colon": b"justoneword\n", "empty": b"\n"}[kind]
                cl.send(op="RAW", hex=raw.hex())
                script.append((ci, "MALFORMED", kind))
                stats["malformed"] += 1
            elif k < b_rm and [p for p in existing if count[rt_of(p)].get(p)]:
                # the owner removes a still registered resource itself: the tracker's later clean-up of it will fail,
                # which must not keep it from cleaning up anything else
                do_rm(rng.choice([p for p in existing if count[rt_of(p)].get(p)]))
            elif k < b_create and creatable():
                # a path that is gone (deleted at zero, removed by its owner) is created again - joblib itself registers
                # its folders before creating them; what the tracker remembers about the old incarnation must not hit the new one
                p = rng.choice(creatable())
                do_create(p)
                if p in zero_missing:
                    ctx.count("created_again_after_zero_while_missing")
            elif k < b_wrong:
                # wrong resource type: a directory registered as a 'file' (its clean-up can only fail)
                wt = os.path.join(d, f"wrongtype{step}")
                os.makedirs(wt)
                cl.send(op="REGISTER", name=wt, rtype="file")
                if rng.random() < 0.4:
                    cl.send(op="MAYBE_UNLINK", name=wt, rtype="file")
                script.append((ci, "REGISTER_DIR_AS_FILE", os.path.basename(wt)))
                stats["malformed"] += 1
            elif k < b_exit and len(live) > 0 and rng.random() < 0.6:
                if rng.random() < 0.5:
                    cl.kill()
                    script.append((ci, "KILLED"))
                    ctx.count("clients_killed")
                else:
                    cl.exit()
                    script.append((ci, "EXIT"))
            else:
                # any name of the universe: also one whose path does not exist (not yet, or not any more)
                p = rng.choice(existing) if existing and rng.random() < p_existing else rng.choice(tracked_files + folders)
                c = count[rt_of(p)].get(p, 0)
                op = rng.choice(["REGISTER", "REGISTER", "MAYBE_UNLINK", "MAYBE_UNLINK", "UNREGISTER"] if c > 0 else ["REGISTER", "REGISTER", "REGISTER", "MAYBE_UNLINK", "UNREGISTER"])
                do_req(cl, ci, op, p)
            why = sync()
            ctx.count("requests_checked")
            if why == "tracker-died":
                err = open(os.path.join(d, "tracker.err"), errors="replace").read()[-400:]
                ctx.violation("tracker-stopped", f"the tracker exited (rc={tracker.returncode}) after {script[-1]}: {err}", dict(desc, script=list(script)))
                ok = False
                break
            if why == "sentinel-stuck":
                ctx.violation("tracker-stopped-answering", f"sentinel not deleted 20 s after {script[-1]} while the tracker is alive", dict(desc, script=list(script)))
                ok = False
                break
            if not check(script[-1]):
                ok = False
                break
        ctx.evaluated()
        ctx.count("scripts")
        ctx.count("malformed_requests", stats["malformed"])
        ctx.count("deletions_at_zero", stats["deletions"])
        if ok:
            # end of input: last clients leave (normally or killed), then the driver's own descriptor
            for c in clients:
                if c.alive:
                    if rng.random() < 0.5:
                        c.kill()
                        ctx.count("clients_killed")
                    else:
                        c.exit()
            os.close(wfd)
            wfd = None
            try:
                rc = tracker.wait(20)
            except subprocess.TimeoutExpired:
                ctx.violation("tracker-did-not-exit", "tracker still running 20 s after its last client left", dict(desc, script=list(script)))
                rc = None
            if rc is not None:
                if rc != 0:
                    ctx.violation("tracker-exit-status", f"tracker exited with {rc}", dict(desc, script=list(script)))
                # everything still registered must be gone now, the rest must have survived
                for rt in ("file", "folder"):
                    for p in list(count[rt]):
                        model_remove(p)
                count = {"file": {}, "folder": {}}
                check("end of input (last client gone)")
            if stats["deletions"] and stats["malformed"]:
                ctx.sig(script)
        if case["i"] % 40 == 0:
            ctx.sample(dict(desc, script=script[:25]))
    finally:
        for c in clients:
            try:
                c.kill()
            except Exception:  # noqa
                pass
        if wfd is not None:
            try:
                os.close(wfd)
            except OSError:
                pass
        if tracker is not None and tracker.poll() is None:
            try:
                tracker.wait(5)
            except subprocess.TimeoutExpired:
                tracker.kill()
        shutil.rmtree(d, ignore_errors=True)
