"""C16 - generator outputs: prompt, in the promised order, safe to abandon.

Monitor: scripted backend in stepped mode (the check owns every completion);
promptness is decided logically: a due result must be delivered while NO other
batch is released; if next() only returns after a later batch was released,
that is the violation witness.  Real backends (threading, loky) are driven with
gate files in a subprocess session.
"""

import gc
import json
import os
import queue
import shutil
import threading
import time
import warnings

from vlib import harness

ID = "C16"
LEVEL = "exploration"
RULE = ("a case is a sequence of <= 5 calls on one Parallel object with return_as generator / generator_unordered on the "
        "scripted backend (n_jobs 2-4, batch_size 1-3, all pre_dispatch forms), the check choosing the completion order batch "
        "by batch and, between completions, one consumer action: pull every due result, close(), drop + gc, call again while "
        "running, call again after exhaustion, leave the with block while the generator of an unfinished run is alive and call again; plus gated runs on threading and loky with batch_size=1; "
        "distinct_nontrivial counts distinct (configuration, completion order, consumer action sequence)"
        " A quarter of the abandon sequences run with warnings turned into errors; closes from another thread hold joblib's clean-up thread back while the object is called again.")
ASSUMPTIONS = [
    "joblib's unit of completion is the batch: result k is due once the batch holding k and all earlier batches have "
    "completed and their callbacks returned (with batch_size=1 this is the statement verbatim)",
    "a due result not delivered within 5 s while no other batch is released, and delivered right after one later batch is "
    "released, was waiting for that later batch (violation); still undelivered = hang witness; a slow delivery with no release is inconclusive",
    "unordered mode: results of a batch are delivered together, batches in completion (callback) order",
]
SHARDS = {"quick": 12, "thorough": 14}
FLOORS = {"quick": {"promptness_checks": 3000, "calls": 600, "closes": 100, "drops": 60, "overlapping_calls_rejected": 60, "real_promptness_checks": 60, "completions_during_abort": 100, "second_calls_while_first_generator_holds_results": 50, "runs_completed_after_a_refused_call": 30, "repeated_overlapping_calls_rejected": 40, "closes_from_another_thread": 30, "runs_completed_after_a_close_from_another_thread": 30, "closes_during_a_callbacks_pull": 30},
          "thorough": {"promptness_checks": 60000, "calls": 12000, "closes": 2000, "drops": 1200, "overlapping_calls_rejected": 1200, "real_promptness_checks": 900, "completions_during_abort": 2000, "second_calls_while_first_generator_holds_results": 1000, "runs_completed_after_a_refused_call": 600, "repeated_overlapping_calls_rejected": 800, "closes_from_another_thread": 500, "runs_completed_after_a_close_from_another_thread": 500, "closes_during_a_callbacks_pull": 600}}

DUE_WAIT = 5.0


def ident(i, tag):
    return (tag, i)


def cases(tier, seed):
    n = 300 if tier == "quick" else 6000
    for i in range(n):
        yield dict(kind="scripted", i=i)
    m = 12 if tier == "quick" else 160
    for i in range(m):
        yield dict(kind="real", i=i)
    for i in range(60 if tier == "quick" else 1200):
        yield dict(kind="exitwith", i=i)
    for i in range(80 if tier == "quick" else 1600):
        yield dict(kind="hold", i=i)
    for i in range(60 if tier == "quick" else 1200):
        yield dict(kind="closepull", i=i)
    for i in range(40 if tier == "quick" else 600):
        yield dict(kind="xclose", i=i)
    for i in range(20 if tier == "quick" else 300):
        yield dict(kind="slowinput", i=i)


class Puller:
    """calls next(gen) in a helper thread so that the check can observe blocking"""

    def __init__(self, gen):
        self.gen = gen
        self.q = queue.Queue()
        self.t = None

    def start(self):
        def run():
            try:
                self.q.put(("v", next(self.gen)))
            except StopIteration:
                self.q.put(("stop", None))
            except BaseException as e:  # noqa
                self.q.put(("exc", e))
        self.t = threading.Thread(target=run, daemon=True)
        self.t.start()

    def get(self, timeout):
        try:
            return self.q.get(timeout=timeout)
        except queue.Empty:
            return None


def guard(fn, ctx):
    """a harness bug in a consumer thread must surface as inconclusive, not vanish with the thread"""
    def run(*a):
        try:
            fn(*a)
        except BaseException:  # noqa
            import traceback
            ctx.inconclusive("harness-exception", traceback.format_exc()[-1500:])
    return run


def run_exit_with(case, ctx):
    """a generator obtained inside `with Parallel(...) as p` is still alive (run unfinished) when the block is left:
    calling p again must raise RuntimeError; once the generator is closed / dropped, p must work and be exact"""
    from joblib import Parallel, delayed
    from vlib.scripted_backend import ScriptedBackend, Src, Trace
    rng = harness.rng_for(ctx.seed, ID, "xw", case["i"])
    J, b = rng.choice([2, 3]), rng.choice([1, 1, 2])
    mode = rng.choice(["generator", "generator_unordered"])
    pd = rng.choice(["2*n_jobs", "all", 3])
    trace = Trace()
    be = ScriptedBackend(trace=trace)
    N = rng.choice([6, 9, 14])
    cfg = dict(J=J, b=b, pd=pd, mode=mode, N=N, scenario="exit-with-block")
    p = Parallel(n_jobs=J, backend=be, return_as=mode, batch_size=b, pre_dispatch=pd)
    ctx.evaluated()
    ctx.count("calls")
    with warnings.catch_warnings():
        warnings.simplefilter("ignore")
        with p:
            g = p(Src(N, lambda i: delayed(ident)(i, "run1"), trace, widen=0))
            ncomp = rng.randint(0, 3)
            got = []
            for _ in range(ncomp):
                pend = be.pending_snapshot()
                if not pend:
                    break
                be.complete(pend[0], thread=True, wait=True)
            # consume what is due in ordered mode: the first completed prefix
            k = rng.randint(0, 1)
            for _ in range(k):
                if len([e for e in trace.snapshot() if e["k"] == "complete"]) > len(got) // max(b, 1):
                    pl = Puller(g)
                    pl.start()
                    r = pl.get(DUE_WAIT)
                    if r and r[0] == "v":
                        got.append(r[1])
                    pl = None
        unfinished = sum(len(e["items"]) for e in trace.snapshot() if e["k"] == "complete") < N
        # the block has been left, g is alive
        try:
            g2 = p(Src(3, lambda i: delayed(ident)(i, "run2"), trace, widen=0))
            if unfinished:
                leftovers = None
                try:
                    drain(be)
                    leftovers = list(g2)
                except BaseException as e:  # noqa
                    leftovers = repr(e)
                ctx.violation("overlapping-call-accepted:after-with-exit",
                              f"after leaving the with block with the generator of an unfinished run still alive, a new call was accepted instead of raising "
                              f"RuntimeError; it yielded {str(leftovers)[:160]}; {cfg}", cfg)
                return
            ctx.count("overlap_skipped_run_already_complete")
            drain(be)
            list(g2)
        except RuntimeError:
            ctx.count("overlapping_calls_rejected")
            ctx.count("overlapping_calls_rejected_after_with_exit")
        if unfinished and case["i"] % 3 == 0:
            # the abandoned generator is USED after its block was left: it may still hand out results of its run (each once) and
            # then stop, or stop at once - an internal error (AttributeError, KeyError, ...) is not a clean end
            ctx.count("generators_used_after_their_with_block_was_left")
            seen = list(got)
            for _ in range(N + 2):
                pl = Puller(g)
                pl.start()
                r = pl.get(10)
                pl = None
                if r is None:
                    ctx.violation("nontermination:use-after-with-exit", f"next() on the generator of an aborted run blocks; {cfg}", cfg)
                    return
                if r[0] == "stop":
                    break
                if r[0] == "exc":
                    ctx.violation("use-after-with-exit:" + type(r[1]).__name__, f"next() on a generator whose with block was left raised {type(r[1]).__name__}: {str(r[1])[:160]} "
                                                                                f"(after {len(seen)} results); {cfg}", cfg)
                    return
                if r[1] in seen or r[1][0] != "run1":
                    ctx.violation("use-after-with-exit:wrong-result", f"next() on a generator whose with block was left delivered {r[1]} (already delivered: {seen}); {cfg}", cfg)
                    return
                seen.append(r[1])
        g.close() if rng.random() < 0.5 else None
        g = None
        gc.collect()
        drain(be)
        # reusable and exact afterwards
        t0 = time.monotonic()
        while getattr(p, "_running", False) and time.monotonic() - t0 < 10:
            time.sleep(0.005)
        try:
            g3 = p(Src(4, lambda i: delayed(ident)(i, "run3"), trace, widen=0))
            drain_thread = threading.Thread(target=lambda: [time.sleep(0.01) or drain(be) for _ in range(200) if True], daemon=True)
            out = []
            for _ in range(4):
                drain(be)
                pl = Puller(g3)
                pl.start()
                for _ in range(50):
                    r = pl.get(0.1)
                    if r is not None:
                        break
                    drain(be)
                if r is None or r[0] != "v":
                    break
                out.append(r[1])
            if sorted(out) != [("run3", i) for i in range(4)]:
                ctx.violation("not-reusable-after-with-exit", f"after the abandoned run the next call delivered {out}; {cfg}", cfg)
        except BaseException as e:  # noqa
            ctx.violation("not-reusable-after-with-exit", f"next call raised {type(e).__name__}: {e}; {cfg}", cfg)
    ctx.sig((cfg, ncomp, k))


def run_case(case, ctx):
    if case["kind"] == "real":
        return run_real(case, ctx)
    if case["kind"] == "exitwith":
        from vlib.scripted_backend import stacks
        t = threading.Thread(target=guard(run_exit_with, ctx), args=(case, ctx), daemon=True)
        t.start()
        t.join(120)
        if t.is_alive():
            ctx.violation("nontermination:consumer-blocked", f"exit-with scenario {case} still blocked after 120 s", dict(stack=stacks().get(t.ident, "")[-1500:]))
        return
    # the whole sequence runs in one consumer thread (so that dispatch, pulls and close() happen in the same thread,
    # as in user code); this thread only watches it
    from vlib.scripted_backend import stacks
    if case["kind"] == "slowinput":
        t = threading.Thread(target=guard(run_slow_input, ctx), args=(case, ctx), daemon=True)
        t.start()
        t.join(120)
        if t.is_alive():
            ctx.violation("nontermination:consumer-blocked", f"slow-input scenario {case} still blocked after 120 s", dict(stack=stacks().get(t.ident, "")[-1500:]))
        return
    if case["kind"] == "xclose":
        t = threading.Thread(target=guard(run_xclose, ctx), args=(case, ctx), daemon=True)
        t.start()
        t.join(150)
        if t.is_alive():
            ctx.violation("nontermination:consumer-blocked", f"close-from-another-thread scenario {case} still blocked after 150 s", dict(stack=stacks().get(t.ident, "")[-1500:]))
        return
    if case["kind"] == "closepull":
        # the generator is closed while a completion callback is blocked inside its pull from a slow input: nothing may be
        # dispatched afterwards (scenario shared with C09, which watches the input side of it)
        from checks import c09
        t = threading.Thread(target=guard(c09.run_close_during_pull, ctx), args=(dict(case, i=50000 + case["i"]), ctx), daemon=True)
        t.start()
        t.join(150)
        if t.is_alive():
            ctx.violation("nontermination:consumer-blocked", f"close-during-pull scenario {case} still blocked after 150 s", dict(stack=stacks().get(t.ident, "")[-1500:]))
        return
    t = threading.Thread(target=guard(run_hold if case["kind"] == "hold" else run_scripted, ctx), args=(case, ctx), daemon=True)
    t.start()
    t.join(150)
    if t.is_alive():
        ctx.violation("nontermination:consumer-blocked", f"consumer thread of case {case} still blocked after 150 s",
                      dict(stack=stacks().get(t.ident, "")[-1500:]))


def run_scripted(case, ctx):
    from joblib import Parallel, delayed
    from vlib.scripted_backend import ScriptedBackend, Src, Trace

    rng = harness.rng_for(ctx.seed, ID, "s", case["i"])
    J = rng.choice([2, 3, 4])
    b = rng.choice([1, 1, 1, 2, 3])
    pd = rng.choice(["2*n_jobs", "n_jobs", 1, 3, "all", "1.5*n_jobs"])
    mode = rng.choice(["generator", "generator_unordered"])
    managed = rng.random() < 0.4
    trace = Trace()
    be = ScriptedBackend(trace=trace)
    p = Parallel(n_jobs=J, backend=be, return_as=mode, batch_size=b, pre_dispatch=pd)
    cfg = dict(J=J, b=b, pd=pd, mode=mode, managed=managed)
    actions = []

    def one_call(k):
        """returns False to stop the sequence"""
        N = rng.choice([1, 2, 3, 5, 8, 12, 20])
        tag = f"c{case['i']}k{k}"
        src = Src(N, lambda i: delayed(ident)(i, tag), trace, widen=0)
        plan = rng.choice(["exhaust", "exhaust", "close", "drop", "overlap"])
        stop_after = rng.randint(0, N) if plan in ("close", "drop") else (rng.randint(0, N - 1) if plan == "overlap" else None)
        desc = dict(cfg, call=k, N=N, plan=plan, stop_after=stop_after, earlier=list(actions))
        ctx.evaluated()
        ctx.count("calls")
        try:
            with warnings.catch_warnings():
                warnings.simplefilter("ignore")
                g = p(src)
        except BaseException as e:  # noqa
            ctx.violation("call-raised", f"call {k} raised {type(e).__name__}: {e}; {desc}", desc)
            return False
        seq0 = len(trace.events)
        completed = []      # batches (Fut) in completion order
        delivered = []
        order = []
        batches_by_bid = {}

        def due():
            subs = [e for e in trace.snapshot() if e["k"] == "submit" and e["seq"] >= first_submit_seq]
            done_bids = {f.bid for f in completed}
            if mode == "generator":
                # first batch (submission order) not fully delivered
                nd = len(delivered)
                acc = 0
                for e in subs:
                    if nd < acc + e["size"]:
                        return e["bid"] in done_bids, e
                    acc += e["size"]
                return False, None
            ndone = sum(len(f.items) for f in completed)
            return ndone > len(delivered), None

        first_submit_seq = next((e["seq"] for e in trace.snapshot() if e["k"] == "submit" and e["call"] == be.call_no), len(trace.events))
        def pump(limit):
          steps = 0
          while True:
              steps += 1
              if steps > 400:
                  ctx.inconclusive("too-many-steps", desc)
                  return False
              if limit is not None and len(delivered) >= limit:
                  return True
              is_due, _ = due()
              if is_due:
                  pl = Puller(g)
                  pl.start()
                  r = pl.get(DUE_WAIT)
                  ctx.count("promptness_checks")
                  if r is None:
                      pend = be.pending_snapshot()
                      if pend:
                          be.complete(pend[-1], thread=True, wait=True)
                          r2 = pl.get(DUE_WAIT)
                          if r2 is not None:
                              ctx.violation("not-prompt:waited-for-later-batch",
                                            f"result {len(delivered)} was due (its batch and all earlier ones complete: {order}) but next() only "
                                            f"returned after a later batch was released; {desc}", dict(desc, order=order))
                          else:
                              ctx.violation("nontermination:next-blocked", f"a due result was never delivered (completed {order}); {desc}", dict(desc, order=order))
                      else:
                          r2 = pl.get(DUE_WAIT)
                          if r2 is None:
                              ctx.violation("nontermination:next-blocked", f"a due result was never delivered, nothing pending (completed {order}); {desc}", dict(desc, order=order))
                          else:
                              ctx.inconclusive("slow-delivery", desc)
                      drain(be)
                      return False
                  if r[0] != "v":
                      ctx.violation("due-result-not-delivered", f"next() gave {r[0]} {r[1]!r} although result {len(delivered)} was due; {desc}", desc)
                      drain(be)
                      return False
                  want = expected_next(mode, tag, delivered, completed)
                  if r[1] != want:
                      ctx.violation("wrong-order" if mode == "generator" else "not-completion-order",
                                    f"next() delivered {r[1]} but {want} was promised (completed batches {[f.items for f in completed]}, delivered {delivered}); {desc}",
                                    dict(desc, order=order))
                      drain(be)
                      return False
                  delivered.append(r[1])
                  continue
              pend = be.pending_snapshot()
              if not pend:
                  if len(delivered) >= N:
                      return True
                  # nothing pending, nothing due, not finished: wait for dispatch to settle
                  if not be.wait_pending(1, timeout=3.0):
                      ctx.violation("nontermination:stalled", f"no batch pending, nothing due, {len(delivered)}/{N} delivered; {desc}", desc)
                      return False
                  continue
              f = rng.choice(pend)
              if be.complete(f, thread=True, wait=True) is not True:
                  ctx.inconclusive("callback-stuck", desc)
                  return False
              completed.append(f)
              order.append(f.bid)

        if not pump(stop_after):
            return False
        actions.append((plan, N, stop_after))
        if plan == "exhaust":
            pl = Puller(g)
            pl.start()
            r = pl.get(DUE_WAIT)
            if r is None or r[0] != "stop":
                ctx.violation("not-exhausted", f"after {N} results next() gave {r}; {desc}", desc)
                drain(be)
                return False
            if sorted(delivered) != [(tag, i) for i in range(N)]:
                ctx.violation("each-exactly-once", f"delivered {delivered}; {desc}", desc)
            ctx.sig((cfg, "exhaust", N, order))
            return True
        if plan == "overlap" and sum(len(f.items) for f in completed) >= N:
            # every task of the run has completed: joblib has already finalised the run (remaining results are
            # held by the generator), so a new call is legitimate - not the situation the statement is about
            ctx.count("overlap_skipped_run_already_complete")
            plan = "close"
        if plan == "overlap":
            try:
                with warnings.catch_warnings():
                    warnings.simplefilter("ignore")
                    g2 = p(Src(3, lambda i: delayed(ident)(i, tag + "x"), trace, widen=0))
                if True:
                    # the first run is unfinished (results outstanding, generator neither exhausted nor closed)
                    ctx.violation("overlapping-call-accepted", f"calling the object again during an unfinished run returned {type(g2).__name__} instead of raising RuntimeError; {desc}", desc)
                    drain(be)
                    return False
            except RuntimeError:
                ctx.count("overlapping_calls_rejected")
                # ... and so must every further call made while that run is still unfinished
                for extra in range(rng.choice([0, 1, 1, 2])):
                    try:
                        with warnings.catch_warnings():
                            warnings.simplefilter("ignore")
                            g3 = p(Src(3, lambda i: delayed(ident)(i, tag + "y"), trace, widen=0))
                        ctx.violation("overlapping-call-accepted", f"call number {extra + 2} made during one unfinished run (the earlier ones were refused) returned {type(g3).__name__} "
                                                                   f"instead of raising RuntimeError; {desc}", desc)
                        drain(be)
                        return False
                    except RuntimeError:
                        ctx.count("overlapping_calls_rejected")
                        ctx.count("repeated_overlapping_calls_rejected")
                if rng.random() < 0.6:
                    # the refused call must have left the running one intact: consume it to the end, each result once
                    if not pump(None):
                        return False
                    pl = Puller(g)
                    pl.start()
                    r = pl.get(DUE_WAIT)
                    if r is None or r[0] != "stop" or sorted(delivered) != [(tag, i) for i in range(N)]:
                        ctx.violation("run-damaged-by-refused-call", f"after a second call was refused with RuntimeError the first run delivered {len(delivered)} of {N} "
                                                                     f"results (missing {sorted(set((tag, i) for i in range(N)) - set(delivered))[:5]}), then {r}; {desc}", desc)
                        drain(be)
                        return False
                    ctx.count("runs_completed_after_a_refused_call")
                    ctx.sig((cfg, "overlap-then-exhaust", N, stop_after, order))
                    return True
            except BaseException as e:  # noqa
                ctx.violation("overlapping-call-wrong-exception", f"{type(e).__name__}: {e}; {desc}", desc)
            plan2 = "close"
        else:
            plan2 = plan
        seq_abandon = len(trace.events)
        pulled_before = sum(1 for e in trace.snapshot() if e["k"] == "pull")
        done = threading.Event()
        err = {}

        # one sequence in four runs with warnings turned into errors (python -W error, pytest -W error): the warnings joblib
        # issues about an abandoned run then RAISE where they are issued - the abandoned run must be cleaned up all the same
        strict = case["i"] % 4 == 1

        def abandon():
            nonlocal g
            try:
                with warnings.catch_warnings():
                    warnings.simplefilter("error" if strict else "ignore")
                    if strict:
                        ctx.count("abandons_with_warnings_as_errors")
                    if plan2 == "close":
                        g.close()
                    else:
                        g = None
                        gc.collect()
            except Warning:
                ctx.count("abandons_that_raised_the_warning")
            except BaseException as e:  # noqa
                err["e"] = e
            done.set()

        pl = None   # the helper objects hold references to the generator
        if rng.random() < 0.5:
            # one of the in-flight batches completes (successfully) while the backend is being aborted
            def finish_one(backend):
                pend = backend.pending_snapshot()
                if pend:
                    ok = backend.complete(rng.choice(pend), thread=True, wait=True, timeout=3)
                    ctx.count("completions_during_abort" if ok else "completions_during_abort_callback_blocked")

            be.during_abort = finish_one
        ta = threading.Thread(target=abandon, daemon=True) if plan2 == "close" else None
        if ta is not None and rng.random() < 0.6:
            abandon()           # close() in the consumer's own thread (the usual case)
            ctx.count("closes")
            ctx.count("closes_in_dispatching_thread")
        elif ta is not None:
            ta.start()          # close() from another thread
            ta.join(20)
            if ta.is_alive():
                ctx.violation("nontermination:close-blocked", f"close() did not return; {desc}", desc)
                return False
            ctx.count("closes")
        else:
            g = None
            gc.collect()
            ctx.count("drops")
        if err:
            ctx.violation("abandon-raised", f"{type(err['e']).__name__}: {err['e']}; {desc}", desc)
        # late completions of whatever was in flight, in random order
        for _ in range(200):
            futs = be.pending_snapshot() + be.late_snapshot()
            if not futs:
                break
            be.complete(rng.choice(futs), thread=True, wait=True, timeout=10)
        time.sleep(0.005)
        ev = trace.snapshot()
        subs_after = [e for e in ev if e["k"] == "submit" and e["seq"] >= seq_abandon]
        pulls_after = sum(1 for e in ev if e["k"] == "pull") - pulled_before
        if subs_after or pulls_after:
            ctx.violation("dispatch-after-abandon", f"after {plan2}: {len(subs_after)} batches submitted, {pulls_after} items pulled; {desc}", desc)
        be.during_abort = None
        ctx.sig((cfg, plan, N, stop_after, order))
        return True

    try:
        if managed:
            with p:
                for k in range(rng.randint(1, 5)):
                    if not one_call(k):
                        break
        else:
            for k in range(rng.randint(1, 5)):
                if not one_call(k):
                    break
    except BaseException as e:  # noqa
        ctx.violation("sequence-raised", f"{type(e).__name__}: {e}; {cfg} after {actions}", dict(cfg, actions=actions))
    drain(be)
    if case["i"] % 70 == 0:
        ctx.sample(dict(cfg, calls=actions))


def run_hold(case, ctx, prefix=""):
    """every task of call 1 has completed but its generator still holds results the consumer has not taken; the same
    object is then called again (a finished run: legitimate; RuntimeError would be acceptable too).  Call 2 must
    deliver exactly its own results and the rest of call 1 must still come out of the first generator, each once."""
    from joblib import Parallel, delayed
    from vlib.scripted_backend import ScriptedBackend, Src, Trace

    rng = harness.rng_for(ctx.seed, ID, "hold", case["i"])
    J = rng.choice([2, 3, 4])
    b = rng.choice([1, 1, 2, 3])
    pd = rng.choice(["2*n_jobs", "n_jobs", 1, 3, "all"])
    mode = rng.choice(["generator", "generator", "generator_unordered"])
    trace = Trace()
    be = ScriptedBackend(trace=trace)
    p = Parallel(n_jobs=J, backend=be, return_as=mode, batch_size=b, pre_dispatch=pd)
    cfg = dict(J=J, b=b, pd=pd, mode=mode, scenario="second call while the first generator still holds results")
    N1, N2 = rng.choice([2, 3, 5, 8, 12]), rng.choice([1, 2, 4, 7])
    take_before = rng.randint(1, N1 - 1)        # taken after every task completed, before the second call
    order_of = {}

    def complete_all(tag, n):
        order = []
        for _ in range(400):
            if sum(len(f.items) for f in order) >= n:
                return order
            pend = be.pending_snapshot()
            if not pend:
                if not be.wait_pending(1, timeout=3.0):
                    return None
                continue
            f = rng.choice(pend)
            if be.complete(f, thread=True, wait=True) is not True:
                return None
            order.append(f)
        return None

    def take(g, k, tag, done, delivered, what):
        for _ in range(k):
            pl = Puller(g)
            pl.start()
            r = pl.get(DUE_WAIT)
            if r is None:
                ctx.violation(prefix + "nontermination:next-blocked", f"{what}: a completed result was not delivered; {cfg}", cfg)
                return False
            if r[0] != "v":
                ctx.violation(prefix + "due-result-not-delivered", f"{what}: next() gave {r[0]} {r[1]!r}; {cfg}", cfg)
                return False
            want = expected_next(mode, tag, delivered, done)
            if r[1] != want:
                ctx.violation(prefix + "results-of-another-call", f"{what}: next() delivered {r[1]} but {want} was promised (N1={N1}, N2={N2}, "
                                                               f"taken from the first generator before the second call: {take_before}); {cfg}", dict(cfg, N1=N1, N2=N2))
                return False
            delivered.append(r[1])
        return True

    ctx.evaluated()
    ctx.count("calls", 2)
    with warnings.catch_warnings():
        warnings.simplefilter("ignore")
        t1, t2 = f"h{case['i']}a", f"h{case['i']}b"
        g1 = p(Src(N1, lambda i: delayed(ident)(i, t1), trace, widen=0))
        done1 = complete_all(t1, N1)
        if done1 is None:
            ctx.inconclusive("hold-setup", cfg)
            drain(be)
            return
        d1, d2 = [], []
        if not take(g1, take_before, t1, done1, d1, "first generator, before the second call"):
            drain(be)
            return
        try:
            g2 = p(Src(N2, lambda i: delayed(ident)(i, t2), trace, widen=0))
        except RuntimeError:
            ctx.count("second_call_rejected_while_results_held")
            return
        ctx.count("second_calls_while_first_generator_holds_results")
        done2 = complete_all(t2, N2)
        if done2 is None:
            ctx.violation(prefix + "nontermination:stalled", f"second call never dispatched / completed its {N2} tasks; {cfg}", cfg)
            drain(be)
            return
        # interleave the two consumers
        first_then = rng.random() < 0.5
        ok = True
        if first_then:
            ok = take(g1, N1 - take_before, t1, done1, d1, "first generator, after the second call")
        ok = ok and take(g2, N2, t2, done2, d2, "second generator")
        if ok and not first_then:
            ok = take(g1, N1 - take_before, t1, done1, d1, "first generator, after the second call")
        if ok:
            for g, what in ((g1, "first"), (g2, "second")):
                pl = Puller(g)
                pl.start()
                r = pl.get(DUE_WAIT)
                if r is None or r[0] != "stop":
                    ctx.violation(prefix + "not-exhausted", f"{what} generator gave {r} after all of its results; {cfg}", cfg)
        drain(be)
        ctx.sig((str(cfg), N1, N2, take_before, first_then))


def run_slow_input(case, ctx):
    """the INPUT is slow: a completion callback sits inside its pull of the next item (a gate of the check) when a result is
    due - the consumer must get that result without waiting for the input to produce"""
    from joblib import Parallel, delayed
    from vlib.scripted_backend import ScriptedBackend, Src, Trace
    rng = harness.rng_for(ctx.seed, ID, "slowinput", case["i"])
    J, b = rng.choice([2, 3]), rng.choice([1, 1, 2])
    mode = rng.choice(["generator", "generator_unordered"])
    trace = Trace()
    be = ScriptedBackend(trace=trace)
    N = rng.choice([12, 20])
    cfg = dict(J=J, b=b, mode=mode, N=N, scenario="slow-input")
    in_gate, release = threading.Event(), threading.Event()
    st = {"armed": False}

    def gate(i):
        if st["armed"] and not in_gate.is_set():
            in_gate.set()
            release.wait(30)

    src = Src(N, lambda i: delayed(ident)(i, "slow"), trace, widen=0)
    src.gate = gate
    p = Parallel(n_jobs=J, backend=be, return_as=mode, batch_size=b, pre_dispatch="2*n_jobs")
    ctx.evaluated()
    ctx.count("calls")
    try:
        with warnings.catch_warnings():
            warnings.simplefilter("ignore")
            g = p(src)
        if not be.wait_pending(1, timeout=10):
            ctx.inconclusive("slow-input:nothing-pending", cfg)
            return
        st["armed"] = True
        first = be.pending_snapshot()[0]
        be.complete(first, thread=True, wait=False)      # registers its results, then pulls the next items: parked in the gate
        if not in_gate.wait(10):
            ctx.count("slow_input_gate_not_reached")
            return
        # the first batch has completed and is the first in submission order: its first result is due
        pl = Puller(g)
        pl.start()
        r = pl.get(DUE_WAIT)
        ctx.count("promptness_checks")
        ctx.count("results_due_while_a_callback_pulls_from_a_slow_input")
        if r is None:
            release.set()
            r2 = pl.get(20)
            ctx.violation("due-result-not-delivered:while-a-callback-pulls-from-a-slow-input",
                          f"result 0 had completed, yet next() blocked as long as the input iterable kept a completion callback waiting for its next item "
                          f"(delivered {r2} once the input produced); {cfg}", cfg)
        elif r[0] != "v" or r[1] != ("slow", 0):
            ctx.violation("wrong-result", f"next() gave {r}; {cfg}", cfg)
        ctx.sig(("slowinput", J, b, mode, N))
    finally:
        release.set()
        try:
            for _ in range(100):
                futs = be.pending_snapshot() + be.late_snapshot()
                if not futs:
                    break
                be.complete(futs[0], thread=True, wait=True, timeout=5)
            g.close()
        except BaseException:  # noqa
            pass


def run_xclose(case, ctx):
    """the generator is closed from ANOTHER thread than the one that made the call (joblib then cleans up in a detached
    thread), and the object is called again at once: the new call is either refused (clean-up pending) or runs to the
    end untouched.  In most cases the detached thread is held back until the new call has been attempted."""
    from joblib import Parallel, delayed
    rng = harness.rng_for(ctx.seed, ID, "xclose", case["i"])
    J, N = rng.choice([2, 3]), rng.randint(3, 8)
    ra = rng.choice(["generator", "generator", "generator_unordered"])
    k = rng.choice([0, 0, 1, 2])
    held = rng.random() < 0.7
    desc = dict(kind="close-from-another-thread", J=J, N=N, ra=ra, consumed_first=k, cleanup_held=held)
    hold, gate = threading.Event(), threading.Event()

    def prof(frame, event, arg):
        if threading.current_thread().name == "GeneratorExitThread" and not hold.is_set():
            hold.wait(20)

    def gated(i, tag, wait):
        if wait:
            gate.wait(30)
        return (tag, i)

    if held:
        threading.setprofile(prof)
    try:
        p = Parallel(n_jobs=J, backend="threading", return_as=ra, pre_dispatch=rng.choice(["2*n_jobs", "all", 1]))
        ctx.evaluated()
        with warnings.catch_warnings():
            warnings.simplefilter("ignore")
            g = p(delayed(gated)(i, "a", i >= k) for i in range(N))
            got = [next(g) for _ in range(k)]
            if sorted(got) != [("a", i) for i in range(k)]:
                ctx.violation("wrong-result", f"first {k} results were {got}; {desc}", desc)
                return
            th = threading.Thread(target=g.close)
            th.start()
            th.join(30)
            ctx.count("closes_from_another_thread")
            g2, refused = None, 0
            t_end = time.monotonic() + 20
            while g2 is None and time.monotonic() < t_end:
                try:
                    g2 = p(delayed(gated)(i, "b", False) for i in range(N))
                except RuntimeError:
                    refused += 1
                    hold.set()          # the clean-up of the closed run may proceed; the object must become usable again
                    time.sleep(0.01)
            if refused:
                ctx.count("calls_refused_while_the_detached_cleanup_was_pending")
            if g2 is None:
                ctx.violation("not-reusable-after-close", f"20 s after the generator was closed from another thread the object still refuses calls; {desc}", desc)
                return
            time.sleep(rng.choice([0, 0.01, 0.05]))
            hold.set()
            time.sleep(rng.choice([0, 0.02, 0.1]))
            gate.set()
            try:
                out = list(g2)
            except BaseException as e:  # noqa
                ctx.violation("run-destroyed-by-earlier-close", f"the call made after a close from another thread raised {type(e).__name__}: {str(e)[:150]}; {desc}", desc)
                return
            if sorted(out) != [("b", i) for i in range(N)] or (ra == "generator" and out != sorted(out)):
                ctx.violation("run-destroyed-by-earlier-close", f"the call made after a close from another thread returned {str(out)[:200]}; {desc}", desc)
                return
            ctx.count("runs_completed_after_a_close_from_another_thread")
            ctx.sig(("xclose", J, N, ra, k, held, bool(refused)))
    finally:
        hold.set()
        gate.set()
        if held:
            threading.setprofile(None)


def expected_next(mode, tag, delivered, completed):
    if mode == "generator":
        return (tag, len(delivered))
    flat = [(tag, i) for f in completed for i in f.items]
    return flat[len(delivered)]


def drain(be):
    for _ in range(500):
        futs = be.pending_snapshot() + be.late_snapshot()
        if not futs:
            return
        be.complete(futs[0], thread=True, wait=True, timeout=5)


# ---------------------------------------------------------------------------


def run_real(case, ctx):
    rng = harness.rng_for(ctx.seed, ID, "real", case["i"])
    backend = ["threading", "loky"][case["i"] % 2]
    cfg = dict(backend=backend, J=rng.choice([2, 3]), N=rng.choice([4, 6, 9]), mode=rng.choice(["generator", "generator_unordered"]),
               pd=rng.choice(["2*n_jobs", "all"]), seed=rng.randrange(1 << 30), abandon=rng.choice([None, None, "close", "drop"]))
    d = harness.mkscratch("vjl-c16-")
    try:
        cf, of = os.path.join(d, "cfg.json"), os.path.join(d, "out.json")
        cfg["dir"] = d
        with open(cf, "w") as f:
            json.dump(cfg, f)
        r = harness.run_py([os.path.join(harness.VERIF, "checks", "c16_real.py"), cf, of], timeout=200, result_file=of)
        ctx.evaluated()
        if r["result"] is None:
            ctx.inconclusive("real-child-failed", dict(cfg=cfg, rc=r["rc"], err=r["err"][-500:]))
            return
        o = r["result"]
        ctx.count("real_promptness_checks", o["checks"])
        ctx.count(f"real_runs_{backend}")
        for v in o["violations"]:
            ctx.violation(v["key"], f"{backend}: {v['what']}; {cfg}", dict(cfg=cfg))
        for v in o["inconclusive"]:
            ctx.inconclusive(v, cfg)
        ctx.sig((backend, cfg["J"], cfg["N"], cfg["mode"], cfg["pd"], o["order"], cfg["abandon"]))
    finally:
        shutil.rmtree(d, ignore_errors=True)
