"""child of C15: observes cpu_count / effective_n_jobs / real concurrency / nesting under an affinity mask and
LOKY_MAX_CPU_COUNT chosen by the parent.  usage: c15_child.py cfg.json out.json"""
import json
import math
import os
import sys
import threading
import time
import warnings

cfg = json.load(open(sys.argv[1]))
if cfg.get("mask"):
    os.sched_setaffinity(0, set(range(cfg["mask"])))
if cfg.get("loky_max") is not None:
    os.environ["LOKY_MAX_CPU_COUNT"] = str(cfg["loky_max"])
else:
    os.environ.pop("LOKY_MAX_CPU_COUNT", None)
warnings.simplefilter("ignore")

import joblib  # noqa: E402
from joblib import Parallel, delayed, effective_n_jobs  # noqa: E402

from vlib import c15_tasks  # noqa: E402


def ref_cpu_count():
    """independent re-derivation: min(os count, affinity mask, cgroup quota, env var), floor 1"""
    n = os.cpu_count() or 1
    vals = [n, len(os.sched_getaffinity(0))]
    try:
        if os.path.exists("/sys/fs/cgroup/cpu.max"):
            q, p = open("/sys/fs/cgroup/cpu.max").read().split()
        else:
            q = open("/sys/fs/cgroup/cpu/cpu.cfs_quota_us").read().strip()
            p = open("/sys/fs/cgroup/cpu/cpu.cfs_period_us").read().strip()
        if q != "max" and int(q) > 0 and int(p) > 0:
            vals.append(math.ceil(int(q) / int(p)))
    except OSError:
        pass
    if os.environ.get("LOKY_MAX_CPU_COUNT") is not None:
        vals.append(int(os.environ["LOKY_MAX_CPU_COUNT"]))
    return max(min(vals), 1)


def resolve(n, cpus):
    if n == 0:
        return "ValueError"
    if n > 0:
        return n
    return max(cpus + 1 + n, 1)


out = dict(joblib=joblib.__file__, obs=[], runs=[], nest=None)


def observe():
    global cpus, caller
    if cfg.get("thread_mask"):
        # on Linux the affinity mask belongs to the THREAD: this (non-main) thread narrows its own
        os.sched_setaffinity(0, set(range(cfg["thread_mask"])))
    _observe()
    # the usable CPUs change WHILE the process lives (a job scheduler narrowing the mask, the application setting
    # LOKY_MAX_CPU_COUNT after its first parallel call): everything is observed again under the new limits
    for ph in cfg.get("phases", []):
        if ph.get("mask"):
            os.sched_setaffinity(0, set(range(ph["mask"])))
        if ph.get("loky_max") is not None:
            os.environ["LOKY_MAX_CPU_COUNT"] = str(ph["loky_max"])
        else:
            os.environ.pop("LOKY_MAX_CPU_COUNT", None)
        cfg["nest"] = None
        _observe()


def _observe():
  global cpus, caller
  if True:
    cpus = ref_cpu_count()
    out["ref_cpu_count"] = cpus
    out["cpu_count"] = joblib.cpu_count()
    out.setdefault("cpu_counts", []).append([out["cpu_count"], cpus])
    logdir = cfg["dir"]
    backend = cfg["backend"]
    kw = {} if backend == "default" else {"backend": backend}

    # --- arithmetic: effective_n_jobs and n_jobs=0
    for n in cfg["n_jobs_arith"]:
        rec = dict(n=n, want=resolve(n, cpus))
        try:
            with joblib.parallel_config(**kw):
                rec["effective"] = effective_n_jobs(n)
        except ValueError:
            rec["effective"] = "ValueError"
        if n == 0:
            try:
                Parallel(n_jobs=0, **kw)(delayed(abs)(i) for i in range(2))
                rec["parallel"] = "accepted"
            except ValueError:
                rec["parallel"] = "ValueError"
        out["obs"].append(rec)

    # --- real concurrency
    caller = (os.getpid(), threading.get_native_id())
    for k, n in enumerate(cfg["n_jobs_run"]):
        want = resolve(n, cpus)
        N = 3 * want + 2
        logf = os.path.join(logdir, f"run{len(out['runs'])}.log")
        rng_durs = [0.02 + 0.01 * ((i * 7) % 5) for i in range(N)]
        t0 = time.monotonic()
        res = Parallel(n_jobs=n, batch_size=1, **kw)(delayed(c15_tasks.timed)(i, logf, rng_durs[i], 0) for i in range(N))
        rows = [l.split() for l in open(logf).read().splitlines()]
        out["runs"].append(dict(n=n, want=want, N=N, ok=res == list(range(N)),
                                rows=[[int(r[0]), int(r[1]), int(r[2]), float(r[3]), float(r[4])] for r in rows], caller=caller))

    # --- two overlapping calls inside one context block: a generator call with n1 workers is alive while a second call
    #     asks for n2 < n1 workers
    if cfg.get("overlap_ctx") and "overlap" not in out:
        import joblib as _j
        n1, n2 = cfg["overlap_ctx"]["n1"], cfg["overlap_ctx"]["n2"]
        logf = os.path.join(logdir, "overlap.log")
        with _j.parallel_config(backend=cfg["overlap_ctx"]["backend"]):
            g = Parallel(n_jobs=n1, return_as="generator", batch_size=1)(delayed(time.sleep)(0.01) for _ in range(300))
            next(g)
            N = 4 * n2 + 2
            res = Parallel(n_jobs=n2, batch_size=1)(delayed(c15_tasks.timed)(i, logf, 0.04, 0) for i in range(N))
            g.close()
        rows = [l.split() for l in open(logf).read().splitlines()]
        out["overlap"] = dict(n1=n1, n2=n2, N=N, ok=res == list(range(N)), backend=cfg["overlap_ctx"]["backend"],
                              rows=[[int(r[0]), int(r[1]), int(r[2]), float(r[3]), float(r[4])] for r in rows])

    # --- nesting
    if cfg.get("nest"):
        logf = os.path.join(logdir, "nest.log")
        depth = cfg["nest"]["depth"]
        Parallel(n_jobs=cfg["nest"]["outer_n"], batch_size=1, **kw)(
            delayed(c15_tasks.nested)(0, depth, cfg["nest"]["inner_n"], logf, [i], cfg["nest"].get("mid_style", "default")) for i in range(cfg["nest"]["outer_n"] + 1))
        rows = [l.split() for l in open(logf).read().splitlines()]
        out["nest"] = dict(rows=[[int(r[0]), int(r[1]), int(r[2]), r[3], int(r[4]), int(r[5])] for r in rows], caller=caller, cfg=cfg["nest"])


if cfg.get("thread_mask"):
    t = threading.Thread(target=observe)
    t.start()
    t.join()
else:
    observe()

with open(sys.argv[2] + ".tmp", "w") as f:
    json.dump(out, f)
os.replace(sys.argv[2] + ".tmp", sys.argv[2])
sys.stdout.flush()
os._exit(0)
