"""C04 - task / iterator failures surface as that exception, timeouts raise
TimeoutError, the call terminates, and the Parallel object stays reusable and
clean.

Monitors: histories fail/ok/... on ONE Parallel object (inside and outside
`with`), on the scripted backend (failing position, completion order, late
completions after the abort / after the next call started, never-completing
batches with a timeout) and on the real backends in subprocess sessions
(including thread / child-process growth over repeated cycles).
"""

import json
import multiprocessing
import os
import shutil
import threading
import time
from concurrent.futures import TimeoutError as CfTimeoutError

from vlib import harness
from vlib.c04_tasks import EXC, Boom, task

ID = "C04"
LEVEL = "exploration"
RULE = ("a case is a history of 2-6 calls on one Parallel object (managed by `with` or not), each call one of "
        "ok / task-failure (1-2 failing positions anywhere) / failing iterator step / never-completing batch with timeout, "
        "over the C01 configuration space, with the scripted backend delivering completions in seeded order from 1-3 threads "
        "including late completions of aborted batches; plus the same histories on threading, loky and multiprocessing; plus 'clogged' failures on threading / loky "
        "(one task raises Boom / a BaseException-only class / SystemExit / KeyboardInterrupt while all its siblings stay busy for a minute, then the same object is called again, 1-3 cycles, with and without a with block); "
        "distinct_nontrivial counts distinct (configuration, history of kinds and failing positions, completion order) "
        "with at least one failing call followed by another call"
        " A seventh of the scripted histories run on a backend WITHOUT a retrieval callback (the base flavour of the backend API); real process-backend histories include transport failures (result / exception / argument that cannot be pickled, an argument whose pickling raises IndexError) and falsy exception instances; two directed scenarios own their scheduling points: a completion callback of a failed call parked inside backend.batch_completed while the object is called again, and a dispatch racing with the end of a failed call (caller held after recording the failure, callback held inside _dispatch).")
ASSUMPTIONS = [
    "exceptions carry (call tag, index), so one leaking from an earlier call is told apart",
    "TimeoutError may be multiprocessing.TimeoutError (what joblib raises), the builtin or concurrent.futures'",
    "with a timeout configured, a TimeoutError in a call whose batches all complete is a slow machine: inconclusive, not a violation",
    "hang criterion: caller blocked while the backend is quiescent (only deliberately held batches pending, no callback in "
    "flight, no event for 6 s) - and for never-completing batches: timeout elapsed 20x over",
]
SHARDS = {"quick": 12, "thorough": 14}
FLOORS = {"quick": {"scripted_calls": 1500, "calls_after_a_failed_call": 500, "late_completions_delivered": 100,
                    "iterator_failures": 150, "timeouts_expected": 60, "real_backend_calls": 80, "clogged_failure_cycles": 16, "clog_exception_kinds": 12, "transport_failures": 8, "callbacks_of_an_aborted_call_resumed_during_the_next_call": 25, "dispatches_racing_with_the_end_of_a_failed_call": 12},
          "thorough": {"scripted_calls": 30000, "calls_after_a_failed_call": 10000, "late_completions_delivered": 2000,
                       "iterator_failures": 3000, "timeouts_expected": 1200, "real_backend_calls": 1200, "clogged_failure_cycles": 200, "clog_exception_kinds": 16}}

TIMEOUT_TYPES = (multiprocessing.TimeoutError, TimeoutError, CfTimeoutError)
_S = {}


def shard_setup(tier):
    import joblib._parallel_backends as jb
    import joblib.parallel as jp
    from vlib import yieldinj
    _S["inj"] = yieldinj.Injector([jp, jb], 0).__enter__()


def cases(tier, seed):
    n = 480 if tier == "quick" else 9600
    for i in range(n):
        yield dict(kind="scripted", i=i)
    m = 36 if tier == "quick" else 360
    for i in range(m):
        yield dict(kind="real", i=i)
    for i in range(16 if tier == "quick" else 160):
        yield dict(kind="clog", i=i)
    for i in range(40 if tier == "quick" else 800):
        yield dict(kind="parked", i=i)
    for i in range(30 if tier == "quick" else 600):
        yield dict(kind="swaprace", i=i)


def gen_history(rng, with_timeout):
    calls = []
    for k in range(rng.randint(2, 6)):
        n = rng.choice([1, 2, 3, 6, 12, 25, 40])
        kinds = ["ok", "ok", "task", "task", "iter", "iterinit"] + (["never"] if with_timeout else [])
        kind = rng.choice(kinds)
        c = dict(n=n, kind=kind)
        if kind == "task":
            c["fail_at"] = sorted(rng.sample(range(n), rng.randint(1, min(2, n))))
            c["exc"] = rng.choice(["Boom", "Boom", "Boom", "BoomBase", "SystemExit", "StopIteration", "BoomFalsy"])
        elif kind == "iter":
            c["iter_fail_at"] = rng.randrange(n)
            c["exc"] = rng.choice(["Boom", "Boom", "BoomBase", "SystemExit"])
        elif kind == "iterinit":
            c["where"] = rng.choice(["__iter__", "__len__"])
        elif kind == "never":
            c["hold"] = rng.randrange(n)
        calls.append(c)
    return calls


class RaisingIterable:
    """an input that fails before its first item: in __iter__, or already in __len__ (which Parallel asks for first)"""

    def __init__(self, exc, where="__iter__"):
        self.exc = exc
        if where == "__len__":
            self.__class__ = RaisingLen

    def __iter__(self):
        raise self.exc


class RaisingLen(RaisingIterable):
    def __len__(self):
        raise self.exc

    def __iter__(self):
        return iter(())


def run_clog(case, ctx):
    """real backend: one task fails (with an Exception or a BaseException-only class) while every sibling stays busy for
    a long time; the same object is then called again - the call must not be starved by the leftovers"""
    rng = harness.rng_for(ctx.seed, ID, "clog", case["i"])
    i = case["i"]
    backend = ["threading", "loky"][i % 2]
    exc = ["Boom", "BoomBase", "SystemExit", "KeyboardInterrupt"][(i // 2) % 4]
    managed = bool((i // 8) % 2) if i < 16 else rng.random() < 0.6
    J = rng.choice([2, 3])
    # batch_size 1: with larger batches the failing task could sit behind a busy sibling of its own batch (it would then
    # legitimately start only when that sibling ends)
    cfg = dict(backend=backend, exc=exc, managed=managed, J=J, b=1, pd=rng.choice(["2*n_jobs", "all", "n_jobs"]),
               ra=rng.choice(["list", "generator"]), N=rng.choice([J + 1, 2 * J, 3 * J]), N2=rng.choice([1, J, 2 * J + 1]), fail_at=0,
               stuck_s=60, cycles=rng.choice([1, 2, 3]))
    cfg["fail_at"] = rng.randrange(min(cfg["N"], J))     # among the first tasks, so that it starts although the others never finish
    d = harness.mkscratch("vjl-c04c-")
    try:
        cf, of = os.path.join(d, "cfg.json"), os.path.join(d, "out.json")
        with open(cf, "w") as f:
            json.dump(cfg, f)
        r = harness.run_py([os.path.join(harness.VERIF, "checks", "c04_clog.py"), cf, of], timeout=75, result_file=of, dump_stacks_at=(40, 10))
        ctx.evaluated()
        ctx.count("clogged_failure_cycles", cfg["cycles"])
        ctx.add("clog_exception_kinds", f"{backend}:{exc}:{'with' if managed else 'plain'}")
        if r["result"] is None:
            prog = []
            try:
                prog = [json.loads(x) for x in open(of + ".progress")]
            except OSError:
                pass
            open_call = prog[-1] if prog and prog[-1]["ev"] == "call_start" else None
            if r["timed_out"] and open_call is not None:
                ctx.violation(f"nontermination:{'next-call-after-failure' if open_call['kind'] == 'ok' else 'failing-call'}",
                              f"{backend} ({'with block' if managed else 'plain'}): after a task raised {exc} while its siblings were busy, the "
                              f"{'next call on the same object' if open_call['kind'] == 'ok' else 'failing call'} had not returned after 75 s ({len(prog) // 2} calls completed before)",
                              dict(cfg=cfg, progress=prog[-4:], stack=(r["stacks"] or [""])[-1][-1500:]))
            else:
                ctx.inconclusive("clog-child-failed", dict(cfg=cfg, rc=r["rc"], err=r["err"][-400:]))
            return
        for k, o in enumerate(r["result"]["calls"]):
            ctx.count("real_backend_calls")
            tag = f"c{k // 2}"
            desc = dict(cfg=cfg, call=k, outcome=o)
            if k % 2 == 0:
                if not (o.get("exc_type") == exc and o.get("exc_args") == [tag, cfg["fail_at"]]):
                    ctx.violation("task-failure:" + ("returned" if "out" in o else "wrong-exception"),
                                  f"{backend} call whose task {cfg['fail_at']} raises {exc}({tag!r}, {cfg['fail_at']}) gave {str(o)[:200]}", desc)
            else:
                ctx.count("calls_after_a_failed_call")
                if o.get("out") != [[tag + "ok", j] for j in range(cfg["N2"])]:
                    ctx.violation("ok-call:wrong-result", f"{backend} call after a clogged failure gave {str(o)[:200]}", desc)
        ctx.sig(("clog", backend, exc, managed, J, cfg["N"], cfg["pd"], cfg["ra"], cfg["cycles"]))
    finally:
        shutil.rmtree(d, ignore_errors=True)


def run_case(case, ctx):
    if case["kind"] == "real":
        return run_real(case, ctx)
    if case["kind"] == "clog":
        return run_clog(case, ctx)
    if case["kind"] in ("parked", "swaprace"):
        th = threading.Thread(target=run_parked if case["kind"] == "parked" else run_swaprace, args=(case, ctx), daemon=True)
        th.start()
        th.join(120)
        if th.is_alive():
            ctx.inconclusive("parked-scenario-watchdog", case)
        return
    run_scripted(case["i"], ctx)


def run_swaprace(case, ctx):
    """a completion callback is registering a NEW batch of call A (inside Parallel._dispatch, past its 'aborting?' test) at the
    very moment the caller's thread meets A's failure and winds the call up; the same object is then called again (B).
    On a backend without a retrieval callback completion callbacks dispatch whatever the outcome, so this overlap is the
    ordinary case there; the thread is parked at that line by a scheduling point of the check (sys.monitoring)"""
    import inspect
    from joblib import Parallel, delayed
    from vlib.scripted_backend import ScriptedBackend, Src, Trace

    rng = harness.rng_for(ctx.seed, ID, "swaprace", case["i"])
    J = rng.choice([2, 3])
    plain_api = case["i"] % 3 != 2
    ra = "list" if plain_api else rng.choice(["list", "generator"])
    trace = Trace()
    be = ScriptedBackend(trace=trace, retrieve_callback=not plain_api)
    p = Parallel(n_jobs=J, backend=be, batch_size=1, pre_dispatch=rng.choice(["2*n_jobs", "n_jobs"]), return_as=ra)
    desc = dict(scenario="dispatch-racing-with-the-end-of-a-failed-call", J=J, ra=ra, retrieval_callback=not plain_api)
    src_lines, first = inspect.getsourcelines(Parallel._dispatch)
    target = first + next(i for i, ln in enumerate(src_lines) if "BatchCompletionCallBack(" in ln)
    # ... and the caller's thread is held right after it has recorded the failed batch's status (under the lock), before it
    # flags the call as aborting (outside the lock)
    from joblib.parallel import BatchCompletionCallBack
    src_lines, first = inspect.getsourcelines(BatchCompletionCallBack._register_outcome)
    k = next(i for i, ln in enumerate(src_lines) if ln.strip().startswith("self._result = "))
    target_caller = first + k
    parked, release = threading.Event(), threading.Event()
    parked_caller, release_caller = threading.Event(), threading.Event()
    st = {"armed": False, "caller": None, "armed_caller": True}

    def hook(code, line):
        if st["armed"] and line == target and threading.get_ident() != st["caller"]:
            st["armed"] = False
            parked.set()
            release.wait(20)

    def hook_caller(code, line):
        if st["armed_caller"] and line == target_caller and threading.get_ident() == st["caller"]:
            st["armed_caller"] = False
            parked_caller.set()
            release_caller.wait(20)

    NA, NB = rng.choice([8, 12]), rng.choice([3, 5])
    tagA, tagB = f"w{case['i']}A", f"w{case['i']}B"
    resA, resB = {}, {}

    def call(tag, n, fail, res, mark=False):
        if mark:
            st["caller"] = threading.get_ident()
        try:
            res["out"] = list(p(Src(n, lambda i: delayed(task)(i, tag, "Boom" if i == fail else False), trace, widen=0)))
        except BaseException as e:  # noqa
            res["exc"] = e

    ctx.evaluated()
    ctx.count("scripted_calls", 2)
    _S["inj"].hooks["_dispatch"] = hook
    _S["inj"].hooks["_register_outcome"] = hook_caller
    try:
        ta = threading.Thread(target=call, args=(tagA, NA, 0, resA, True), daemon=True)
        ta.start()
        if not be.wait_pending(2, timeout=10):
            ctx.inconclusive("swaprace:not-enough-batches", desc)
            return
        pend = be.pending_snapshot()
        failing = next(f for f in pend if 0 in f.items)
        other = next(f for f in pend if f is not failing)
        # 1. the failure reaches the caller's thread (through retrieve_result() or through the callback), which registers it
        #    and enters its wind-up handler - where it is held
        if plain_api:
            be.take(failing)
            be._run(failing)
        else:
            be.complete(failing, thread=True, wait=True, timeout=10)
        if not parked_caller.wait(10):
            ctx.count("swaprace_window_not_reached")
            return
        # 2. another batch completes: its callback dispatches the next batch and is held inside _dispatch, past the test of
        #    the 'aborting' flag (a backend with a retrieval callback does not dispatch any more: the failure is registered)
        st["armed"] = True
        be.complete(other, thread=True, wait=False)
        reached = parked.wait(3 if plain_api else 0.5)
        if reached:
            ctx.count("dispatches_racing_with_the_end_of_a_failed_call")
        # 3. the caller winds the call up while that dispatch is in progress, then the dispatch goes on
        release_caller.set()
        time.sleep(0.05)
        release.set()
        ta.join(15)
        if ta.is_alive():
            ctx.violation("nontermination:failing-call", f"call A did not end; {desc}", desc)
            return
        if not isinstance(resA.get("exc"), Boom):
            ctx.violation("task-failure:wrong-exception", f"call A whose task 0 fails gave {str(resA)[:200]}; {desc}", desc)
            return
        tb = threading.Thread(target=call, args=(tagB, NB, None, resB), daemon=True)
        tb.start()
        for _ in range(400):
            if not tb.is_alive():
                break
            futs = be.pending_snapshot() + be.late_snapshot()
            if futs:
                be.complete(rng.choice(futs), thread=True, wait=True, timeout=10)
                time.sleep(0.01)
            else:
                time.sleep(0.005)
        tb.join(10)
        if tb.is_alive():
            ctx.violation("nontermination:next-call-after-failure", f"call B did not end after all batches completed; {desc}", desc)
            return
        if resB.get("out") != [(tagB, i) for i in range(NB)]:
            e = resB.get("exc")
            leak = e is None and any(x[0] != tagB for x in resB.get("out", []))
            ctx.violation("ok-call:" + ("leftover-from-earlier-call" if leak else "wrong-result"),
                          f"call B (ok, n={NB}) after a failed call whose last dispatch overlapped its end returned/raised "
                          f"{type(e).__name__ + str(e.args)[:120] if e is not None else str(resB.get('out'))[:160]}; {desc}", desc)
        ctx.sig(("swaprace", J, ra, plain_api, NA, NB))
    finally:
        release.set()
        release_caller.set()
        _S["inj"].hooks.pop("_dispatch", None)
        _S["inj"].hooks.pop("_register_outcome", None)


def run_parked(case, ctx):
    """a completion callback of call A is parked INSIDE its own processing - in backend.batch_completed, which joblib calls
    between registering the batch's result and accounting the completion - while another task of A fails, A raises and the
    same object is called again (B); the parked callback then resumes in the middle of B"""
    from joblib import Parallel, delayed
    from vlib.scripted_backend import ScriptedBackend, Src, Trace

    rng = harness.rng_for(ctx.seed, ID, "parked", case["i"])
    J = rng.choice([2, 3])
    b = rng.choice([1, 1, 2])
    ra = rng.choice(["list", "generator", "generator_unordered"])
    managed = rng.random() < 0.5
    trace = Trace()
    be = ScriptedBackend(trace=trace)
    p = Parallel(n_jobs=J, backend=be, batch_size=b, pre_dispatch=rng.choice(["2*n_jobs", "all", "n_jobs"]), return_as=ra)
    desc = dict(scenario="callback-parked-across-two-calls", J=J, b=b, ra=ra, managed=managed)
    parked, release = threading.Event(), threading.Event()
    state = {"armed": True}

    def hook(backend, batch_size):
        if state["armed"]:
            state["armed"] = False
            parked.set()
            release.wait(30)

    be.on_batch_completed = hook
    NA, NB = rng.choice([6, 9]), rng.choice([3, 5, 8])
    fail_at = rng.randrange(b, NA)          # not in the first batch (the one whose callback is parked)
    tagA, tagB = f"p{case['i']}A", f"p{case['i']}B"
    resA, resB = {}, {}

    def call(tag, n, fail, res):
        try:
            res["out"] = list(p(Src(n, lambda i: delayed(task)(i, tag, "Boom" if i == fail else False), trace, widen=0)))
        except BaseException as e:  # noqa
            res["exc"] = e

    ctx.evaluated()
    ctx.count("scripted_calls", 2)

    def body():
        ta = threading.Thread(target=call, args=(tagA, NA, fail_at, resA), daemon=True)
        ta.start()
        if not be.wait_pending(2, timeout=10):
            ctx.inconclusive("parked:not-enough-batches", desc)
            return
        pend = be.pending_snapshot()
        first = pend[0]
        be.complete(first, thread=True, wait=False)          # its callback parks inside batch_completed
        if not parked.wait(10):
            ctx.inconclusive("parked:hook-not-reached", desc)
            return
        # the batch holding the failing task completes: A aborts and raises
        for _ in range(200):
            if not ta.is_alive():
                break
            cand = [f for f in be.pending_snapshot() if f is not first]
            failing = [f for f in cand if fail_at in f.items]
            if failing or cand:
                be.complete((failing or cand)[0], thread=True, wait=True, timeout=10)
            else:
                time.sleep(0.01)
        ta.join(10)
        if ta.is_alive() or not isinstance(resA.get("exc"), Boom):
            if ta.is_alive():
                ctx.inconclusive("parked:first-call-did-not-end", desc)
            else:
                ctx.violation("task-failure:wrong-exception", f"call A with failing task {fail_at} gave {str(resA)[:200]}; {desc}", desc)
            return
        # the same object is called again while A's callback is still parked
        tb = threading.Thread(target=call, args=(tagB, NB, None, resB), daemon=True)
        tb.start()
        be.wait_pending(1, timeout=10)
        release.set()
        first.cb_returned.wait(10)
        ctx.count("callbacks_of_an_aborted_call_resumed_during_the_next_call")
        for _ in range(400):
            if not tb.is_alive():
                break
            futs = be.pending_snapshot()
            if futs:
                be.complete(rng.choice(futs), thread=True, wait=True, timeout=10)
                time.sleep(0.03)        # the caller polls every 10 ms: let it look at its counters between two completions
            else:
                time.sleep(0.005)
        tb.join(10)
        if tb.is_alive():
            ctx.violation("nontermination:next-call-after-failure", f"call B did not end after all its batches completed; {desc}", desc)
            return
        got = resB.get("out")
        want = [(tagB, i) for i in range(NB)]
        if ra == "generator_unordered" and got is not None:
            got = sorted(got)
        if got != want:
            e = resB.get("exc")
            ctx.violation("ok-call:disturbed-by-a-callback-of-the-aborted-call", f"call B (ok, n={NB}) made while a completion callback of the aborted call A was still being processed "
                                                                                  f"returned/raised {type(e).__name__ + str(e.args)[:120] if e is not None else str(resB.get('out'))[:160]}; {desc}", desc)
        ctx.sig(("parked", J, b, ra, managed, NA, NB, fail_at))

    try:
        if managed:
            with p:
                body()
        else:
            body()
    except BaseException as e:  # noqa
        ctx.violation("history-raised", f"{type(e).__name__}: {e} outside any call; {desc}", desc)
    finally:
        release.set()
        be.on_batch_completed = None


def run_scripted(sid, ctx):
    from joblib import Parallel, delayed
    from vlib.scripted_backend import AutoController, ScriptedBackend, Src, Trace, stacks

    rng = harness.rng_for(ctx.seed, ID, "s", sid)
    J = rng.choice([2, 2, 3, 4])
    b = rng.choice([1, 1, 2, 3, "auto"])
    pd = rng.choice(["2*n_jobs", 1, 2, "n_jobs", "all", "all", "1.5*n_jobs"])
    ra = rng.choice(["list", "generator", "generator_unordered"])
    timeout = rng.choice([None, None, 0.25])
    managed = rng.random() < 0.5
    history = gen_history(rng, timeout is not None)
    if sid % 12 == 7:
        # timeout=0 / 0.0: any wait is too long - a call with a batch that never completes must still raise TimeoutError
        timeout = rng.choice([0, 0.0])
        history = [dict(n=n, kind="never", hold=rng.randrange(n)) for n in (rng.choice([1, 2, 6]), rng.choice([3, 12]))][:rng.choice([1, 2])]
        ctx.count("histories_with_timeout_zero")
    # one history in seven on a backend WITHOUT a retrieval callback (the base flavour of the backend API: the caller's thread
    # fetches results - and meets failures - itself, in submission order; no generators, no timeouts there)
    plain_api = sid % 7 == 3 and sid % 12 != 7
    if plain_api:
        ra, timeout = "list", None
        history = [c for c in history if c["kind"] != "never"] or [dict(n=3, kind="ok")]
        ctx.count("histories_on_a_backend_without_retrieval_callback")
    trace = Trace()
    sync_p = rng.choice([0.0, 0.0, 0.3])
    srng = harness.rng_for(ctx.seed, ID, "sync", sid)
    held = set()
    held_call = [None]

    def is_held(fut):
        return fut.call_no == held_call[0] and bool(set(fut.items) & held)

    be = ScriptedBackend(trace=trace, sync_in_submit=(lambda fut: not is_held(fut) and srng.random() < sync_p) if sync_p else None, retrieve_callback=not plain_api)
    ctl = AutoController(be, harness.rng_for(ctx.seed, ID, "ctl", sid), nthreads=rng.choice([1, 2, 3]),
                         late_prob=rng.choice([0.0, 0.1, 0.5, 0.9]), late_at_configure=rng.choice([0.0, 0.5, 1.0]),
                         hold=is_held)
    inj = _S["inj"]
    inj.reseed(ctx.seed * 104729 + sid, p_yield=rng.choice([0.0, 0.02]), p_sleep=rng.choice([0.0, 0.004]))
    cfgdesc = dict(J=J, b=b, pd=pd, ra=ra, timeout=timeout, managed=managed, sid=sid, sync_p=sync_p, retrieval_callback=not plain_api)
    p = Parallel(n_jobs=J, backend=be, batch_size=b, pre_dispatch=pd, return_as=ra, timeout=timeout)
    ctl.start()
    base_threads = threading.active_count()
    failed_before = [False]
    summary = []

    def one_call(k, c):
        tag = f"s{sid}c{k}"
        n = c["n"]
        held.clear()
        held_call[0] = None
        if c["kind"] == "never":
            held.add(c["hold"])
            held_call[0] = be.call_no + 1
        xc = EXC[c.get("exc", "Boom")]
        src = Src(n, lambda i: delayed(task)(i, tag, c.get("exc", "Boom") if i in c.get("fail_at", ()) else False), trace, widen=0,
                  fail_at=c.get("iter_fail_at"), fail_exc=xc("iter", tag, c.get("iter_fail_at")))
        if c["kind"] == "iterinit":
            src = RaisingIterable(Boom("iter", tag, -1), c.get("where", "__iter__"))     # the input's __iter__ (or __len__) itself raises
            ctx.count("inputs_failing_in:" + c.get("where", "__iter__"))
        res = {}

        def go():
            try:
                out = p(src)
                res["out"] = list(out)
            except BaseException as e:  # noqa
                res["exc"] = e

        late_before = sum(1 for e in trace.events if e["k"] == "complete" and e["call"] < be.call_no + 1)
        th = threading.Thread(target=go, daemon=True)
        t0 = time.monotonic()
        th.start()
        th.join(30)
        ctx.evaluated()
        ctx.count("scripted_calls")
        if failed_before[0]:
            ctx.count("calls_after_a_failed_call")
        desc = dict(cfgdesc, call=k, history=history)
        if th.is_alive():
            n0 = len(trace.events)
            quiet = True
            for _ in range(6):
                time.sleep(1.0)
                pend = [f for f in be.pending_snapshot() if not (set(f.items) & held)]
                if not th.is_alive() or len(trace.events) != n0 or pend or not be.quiescent():
                    quiet = False
                    break
            if th.is_alive() and quiet:
                key = "nontermination:no-timeout" if c["kind"] == "never" else "nontermination:quiescent-hang"
                ctx.violation(key, f"call {k} ({c}) of history still blocked after {time.monotonic() - t0:.0f}s with the backend quiescent "
                                   f"(timeout={timeout}); config {cfgdesc}", dict(desc, stack=stacks().get(th.ident, "")[-1500:]))
            else:
                ctx.inconclusive("watchdog", desc)
            return "stuck"
        e = res.get("exc")
        kind = c["kind"]
        summary.append((kind, c.get("fail_at") or c.get("iter_fail_at") or c.get("hold")))
        if timeout is not None and kind != "never" and isinstance(e, TIMEOUT_TYPES):
            ctx.inconclusive("spurious-timeout", desc)
            failed_before[0] = True
            return "ok"
        if kind == "ok":
            want = [(tag, i) for i in range(n)]
            got = res.get("out")
            if ra == "generator_unordered" and got is not None:
                got = sorted(got)
            if got != want:
                what = f"{type(e).__name__}{e.args}" if e is not None else str(res.get("out"))[:200]
                if isinstance(e, RuntimeError) and "already running" in str(e):
                    ctx.violation("object-left-running-after-failed-call", f"call {k} (ok, n={n}) after {summary[:-1]} raised RuntimeError: {e}; config {cfgdesc}", desc)
                    return "ok"
                leak = "leftover-from-earlier-call" if (e is None and any(x[0] != tag for x in res.get("out", []))) or \
                    (type(e) in EXC.values() and e.args and tag not in e.args) else "wrong-result"
                ctx.violation(f"ok-call:{leak}", f"call {k} (ok, n={n}) after {summary[:-1]} returned/raised {what}; config {cfgdesc}", desc)
        elif kind == "task":
            failed_before[0] = True
            ctx.count("task_failures:" + c.get("exc", "Boom"))
            if not (type(e) is xc and len(e.args) == 2 and e.args[0] == tag and e.args[1] in c["fail_at"]):
                what = f"raised {type(e).__name__}{getattr(e, 'args', '')}" if e is not None else f"returned {str(res.get('out'))[:150]}"
                if xc is StopIteration and isinstance(e, RuntimeError) and "generator raised StopIteration" in str(e):
                    key = "task-failure:StopIteration-becomes-RuntimeError"
                else:
                    key = "task-failure:" + ("returned" if e is None else ("leftover-from-earlier-call" if type(e) in EXC.values() and e.args and tag not in e.args else "wrong-exception"))
                ctx.violation(key, f"call {k} with tasks {c['fail_at']} of {n} raising {xc.__name__} {what}; config {cfgdesc}", desc)
        elif kind == "iterinit":
            failed_before[0] = True
            ctx.count("iterator_failures")
            if not (isinstance(e, Boom) and e.args[:2] == ("iter", tag)):
                what = f"raised {type(e).__name__}{getattr(e, 'args', '')}" if e is not None else f"returned {str(res.get('out'))[:150]}"
                ctx.violation("iterator-failure:__iter__:" + ("returned" if e is None else "wrong-exception"), f"call {k} whose input raises in __iter__ {what}; config {cfgdesc}", desc)
        elif kind == "iter":
            failed_before[0] = True
            ctx.count("iterator_failures")
            ctx.count("iterator_failures:" + c.get("exc", "Boom"))
            if not (type(e) is xc and e.args[:2] == ("iter", tag)):
                what = f"raised {type(e).__name__}{getattr(e, 'args', '')}" if e is not None else f"returned {str(res.get('out'))[:150]}"
                key = "iterator-failure:" + ("returned" if e is None else "wrong-exception")
                if type(e) in EXC.values() and e.args and tag not in e.args:
                    key = "iterator-failure:leftover-from-earlier-call"
                if e is None and pd == "all" and res.get("out") == []:
                    key = "iterator-failure:swallowed-in-first-slice-with-pre_dispatch-all"
                ctx.violation(key, f"call {k} whose input raises at step {c['iter_fail_at']} of {n} {what}; config {cfgdesc}", desc)
        elif kind == "never":
            failed_before[0] = True
            ctx.count("timeouts_expected")
            if not isinstance(e, TIMEOUT_TYPES):
                what = f"raised {type(e).__name__}{getattr(e, 'args', '')}" if e is not None else f"returned {str(res.get('out'))[:150]}"
                ctx.violation("timeout:not-raised", f"call {k} with a never-completing batch (item {c['hold']} of {n}, timeout={timeout}) {what}; config {cfgdesc}", desc)
        if getattr(src, "reentered", 0):
            ctx.violation("input-reentered", f"input entered by two threads at once in call {k}; config {cfgdesc}", desc)
        return "ok"

    def run_history():
        for k, c in enumerate(history):
            if one_call(k, c) == "stuck":
                return False
        return True

    try:
        if managed:
            with p:
                ok = run_history()
                if not ok:
                    return
        else:
            if not run_history():
                return
    except BaseException as e:  # noqa
        ctx.violation("history-raised", f"{type(e).__name__}: {e} outside any call; config {cfgdesc}", dict(cfgdesc, history=history))
    finally:
        held.clear()
        held_call[0] = None
        time.sleep(0.01)
        ctl.shutdown()
    ev = trace.snapshot()
    # late completions: a complete event of call c delivered after a start_call of a later call / after its abort
    starts = {e["call"]: e["seq"] for e in ev if e["k"] == "start_call"}
    late = sum(1 for e in ev if e["k"] == "complete" and any(s > e["call"] and starts[s] < e["seq"] for s in starts))
    after_abort = 0
    aborted_calls = {}
    for e in ev:
        if e["k"] == "abort":
            aborted_calls.setdefault(e["call"], e["seq"])
    after_abort = sum(1 for e in ev if e["k"] == "complete" and e["call"] in aborted_calls and e["seq"] > aborted_calls[e["call"]])
    ctx.count("late_completions_delivered", late + after_abort)
    # submissions after the abort of the same call
    for e in ev:
        if e["k"] == "submit" and e["call"] in aborted_calls and e["seq"] > aborted_calls[e["call"]]:
            ctx.count("submits_after_abort")
    grown = threading.active_count() - base_threads
    ctx.maxi("max_thread_growth_after_history", grown)
    if any(s[0] != "ok" for s in summary[:-1]):
        ctx.sig((cfgdesc["J"], str(b), str(pd), ra, timeout, managed, summary, [e["bid"] for e in ev if e["k"] == "complete"]))
    if sid % 97 == 0:
        ctx.sample(dict(cfgdesc, history=history, outcome=summary))


# ---------------------------------------------------------------------------


def caller_chain(dump, marker):
    """[(file, function)] of the thread whose stack goes through `marker` in a faulthandler dump (line numbers left out)"""
    import re
    for block in re.split(r"\n\s*\n", dump):
        if marker in block:
            return [(os.path.basename(m.group(1)), m.group(2)) for m in re.finditer(r'File "([^"]+)", line \d+ in (\S+)', block)]
    return []


def run_real(case, ctx):
    rng = harness.rng_for(ctx.seed, ID, "real", case["i"])
    backend = ["threading", "loky", "multiprocessing", "threading", "loky", "loky"][case["i"] % 6]
    J = rng.choice([2, 3])
    if case["i"] % 6 == 3:
        J = 1       # the calling thread runs the tasks itself (sequential code path)
    cfg = dict(backend=backend, J=J, b=rng.choice([1, 1, 2, "auto"]), pd=rng.choice(["2*n_jobs", 1, "all", "n_jobs"]),
               ra="list" if backend == "multiprocessing" else rng.choice(["list", "generator"]),
               managed=rng.random() < 0.5, cycles=rng.choice([3, 5, 10]), seed=rng.randrange(1 << 30),
               verbose=rng.choice([0, 0, 1, 11, 60]))     # progress reporting runs inside the same code paths as error handling
    hist = []
    for k in range(cfg["cycles"]):
        h = gen_history(rng, False)[:2]
        for c in h:
            c["n"] = min(c["n"], 12)
            if c["kind"] == "task":
                c["fail_at"] = [x for x in c["fail_at"] if x < c["n"]] or [0]
            if c["kind"] == "iter":
                c["iter_fail_at"] = min(c["iter_fail_at"], c["n"] - 1)
        hist.extend(h)
    if backend in ("loky", "multiprocessing"):
        # failures in TRANSPORT: the result or the exception of a task cannot be pickled, or the task cannot be sent - the
        # pools report them through another path than an exception raised by the task
        tasks_calls = [c for c in hist if c["kind"] == "task"]
        forced = tasks_calls[0] if tasks_calls and case["i"] % 2 == 0 else None      # every other history has one for sure
        for c in hist:
            if c["kind"] == "task" and (c is forced or rng.random() < 0.35):
                c.update(kind="transport", how=rng.choice(["unpicklable-result", "unpicklable-exception", "unpicklable-argument", "argument-pickling-raises-IndexError"]), fail_at=c["fail_at"][:1])
                c.pop("exc", None)
    cfg["history"] = hist
    d = harness.mkscratch("vjl-c04-")
    try:
        cf, of = os.path.join(d, "cfg.json"), os.path.join(d, "out.json")
        with open(cf, "w") as f:
            json.dump(cfg, f)
        # (a history takes a few seconds; the two stack dumps that make a hang witness are taken after 100 and 120 s)
        r = harness.run_py([os.path.join(harness.VERIF, "checks", "c04_real.py"), cf, of], timeout=160,
                           result_file=of, dump_stacks_at=(100, 20))
        if r["result"] is None:
            from checks.c01 import same_stacks
            # hang witness: two stack dumps 20 s apart are identical - or (the caller's retrieval loop polls: its line numbers move)
            # show the thread that makes the calls in the same chain of functions, inside the same call of the history, which
            # normally takes milliseconds
            prog = []
            try:
                prog = [json.loads(ln) for ln in open(of + ".progress")]
            except (OSError, ValueError):
                pass
            open_call = next((p_["call"] for p_ in reversed(prog) if p_["ev"] == "start"), None)
            if open_call is not None and any(p_["ev"] == "end" and p_["call"] == open_call for p_ in prog):
                open_call = None
            chains = [caller_chain(st, "c04_real.py") for st in (r["stacks"] or [])]
            t_open = next((p_["t"] for p_ in reversed(prog) if p_["ev"] == "start" and p_["call"] == open_call), None)
            # (the dumps are taken 100 s and 120 s after the child started; its first progress line is written within a second or two)
            stuck = (len(chains) == 2 and open_call is not None and t_open is not None and t_open - prog[0]["t"] < 90
                     and all(any(f == "parallel.py" for f, _ in ch) for ch in chains))
            if r["timed_out"] and r["stacks"] and len(r["stacks"]) == 2 and (same_stacks(r["stacks"]) or stuck):
                ctx.evaluated()
                c_open = hist[open_call] if open_call is not None and open_call < len(hist) else None
                ctx.violation("nontermination:real-backend-hang", f"{backend} history did not terminate: call {open_call} ({c_open}) was still running after 120 s, "
                                                                   f"the calling thread inside joblib.parallel in both stack dumps taken 100 s and 120 s after the start ({[fn for _, fn in (chains[0] if chains else [])][:6]})",
                              dict(cfg=cfg, stack=r["stacks"][1][-2000:], open_call=open_call))
            else:
                ctx.inconclusive("real-backend-child-failed", dict(cfg=cfg, rc=r["rc"], err=r["err"][-600:]))
            return
        out = r["result"]
        prev_failed = False
        for k, (c, o) in enumerate(zip(hist, out["calls"])):
            ctx.evaluated()
            ctx.count("real_backend_calls")
            ctx.count(f"real_calls_{backend}")
            desc = dict(cfg=dict(cfg, history=None), call=k, c=c, history=hist[:k + 1])
            tag = f"c{k}"
            if prev_failed:
                ctx.count("calls_after_a_failed_call")
            if c["kind"] == "ok":
                wtag = "W" if backend in ("loky", "multiprocessing") else None
                if o.get("out") != [[tag, i, wtag] for i in range(c["n"])]:
                    if o.get("out") == [[tag, i, None] for i in range(c["n"])]:
                        ctx.violation("ok-call:worker-options-lost-after-failed-call",
                                      f"{backend} call {k} after {[h['kind'] for h in hist[:k]]} ran in workers that were not initialised (the initializer given to Parallel was dropped)", desc)
                        prev_failed = False
                        continue
                    ctx.violation("ok-call:wrong-result", f"{backend} call {k} (ok, n={c['n']}) after {[h['kind'] for h in hist[:k]]} gave {str(o)[:200]}", desc)
                prev_failed = False
            elif c["kind"] == "transport":
                prev_failed = True
                ctx.count("transport_failures")
                ctx.count(f"transport_failures:{backend}:{c['how']}")
                if "exc_type" not in o:
                    ctx.violation("transport-failure:returned", f"{backend} call {k} whose task {c['fail_at']} fails in transport ({c['how']}) returned {str(o)[:200]}", desc)
            elif c["kind"] == "task":
                prev_failed = True
                if not (o.get("exc_type") == c.get("exc", "Boom") and o.get("exc_args", [None])[0] == tag and o["exc_args"][1] in c["fail_at"]):
                    sk = c.get("exc") == "StopIteration" and o.get("exc_type") == "RuntimeError" and "generator raised StopIteration" in str(o.get("exc_args"))
                    fk = c.get("exc") == "BoomFalsy" and backend == "loky" and o.get("exc_type") == "TypeError" and "'NoneType' object is not iterable" in str(o.get("exc_args"))
                    ctx.violation("task-failure:StopIteration-becomes-RuntimeError" if sk else "task-failure:falsy-exception-instance:loky" if fk else "task-failure:" + ("returned" if "out" in o else "wrong-exception"),
                                  f"{backend} call {k} with failing tasks {c['fail_at']} gave {str(o)[:200]}", desc)
            else:
                prev_failed = True
                ctx.count("iterator_failures")
                if not (o.get("exc_type") == c.get("exc", "Boom") and o.get("exc_args", [None, None])[:2] == ["iter", tag]):
                    key = "iterator-failure:" + ("returned" if "out" in o else "wrong-exception")
                    if "out" in o and cfg["pd"] == "all" and o["out"] == []:
                        key = "iterator-failure:swallowed-in-first-slice-with-pre_dispatch-all"
                    ctx.violation(key, f"{backend} call {k} whose input raises at step {c['iter_fail_at']} gave {str(o)[:200]}", desc)
        if cfg["verbose"]:
            ctx.count("real_histories_with_progress_reporting")
        if J == 1:
            ctx.count("real_histories_on_the_sequential_path")
        ctx.sig((backend, J, cfg["verbose"], str(cfg["b"]), cfg["pd"], cfg["ra"], cfg["managed"], [(c["kind"], c.get("fail_at"), c.get("iter_fail_at")) for c in hist]))
        g = out["growth"]
        ctx.maxi("max_real_thread_growth", g["threads"])
        ctx.maxi("max_real_child_growth", g["children"])
        if g["threads"] > J + 4 or g["children"] > J + 3:
            ctx.violation("resource-growth", f"{backend}: after {len(hist)} fail/ok calls threads grew by {g['threads']} and child processes by {g['children']} (n_jobs={J})",
                          dict(cfg=cfg, growth=g))
    finally:
        shutil.rmtree(d, ignore_errors=True)
