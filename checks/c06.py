"""C06 - Memory serves repeated calls from cache whatever the equivalent call form.

Monitor: same generated functions and histories as C02, plus ignore lists,
dict / set arguments rebuilt in other insertion orders and fresh processes with
other hash seeds; executions of the function body are counted by the function
itself, check_call_in_cache is queried before calls, and every call the plain
function accepts must be accepted by the wrapper.
"""

from checks import c02
from vlib import gen_sig

ID = "C06"
LEVEL = "exploration"
RULE = ("same histories as C02 with ignore lists (every subset of <= 2 names incl. '*' / '**'), values of ignored parameters "
        "varied, and 1-3 fresh processes (PYTHONHASHSEED 0, 1, random) repeating earlier calls; the model is the set of "
        "fingerprints of bound non-ignored arguments computed so far per function (and per instance state for methods): a "
        "call whose fingerprint is in the model must execute the body 0 times, any other exactly once; "
        "check_call_in_cache must predict that; distinct_nontrivial counts distinct (function, fingerprint) pairs that "
        "were called at least twice in different forms or processes")
ASSUMPTIONS = [
    "the fingerprint of the plain call identifies the equivalence class of a call (functions are pure in their non-ignored arguments)",
    "cross-process reuse is asserted for functions importable by name from a module file (plain, methods of equal-state instances, async)",
    "no eviction / clear / source change happens in these histories",
]
SHARDS = c02.SHARDS
FLOORS = {"quick": {"calls_checked": 8000, "expected_hits": 3000, "hits_in_other_process": 300, "check_call_in_cache_queries": 2500, "ignore_variant_hits": 100, "histories_through_recached_wrappers": 25},
          "thorough": {"calls_checked": 80000, "expected_hits": 30000, "hits_in_other_process": 3000, "check_call_in_cache_queries": 25000, "ignore_variant_hits": 1000, "histories_through_recached_wrappers": 300}}


def cases(tier, seed):
    return c02.cases(tier, seed)


def run_case(case, ctx):
    c02.run_case(case, ctx, with_ignore=True, judge=judge_c06)


def judge_c06(ctx, funcs, segs, outs, meta):
    model = {}       # (func idx, holder) -> {fingerprint: (segment index, form)}
    for si, (seg, (res, _)) in enumerate(zip(segs, outs)):
        for step, rec in zip(seg["steps"], res["steps"]):
            f = funcs[step["f"]]
            if step.get("op") == "clear":
                ctx.count("clears_in_the_middle_of_a_history")
                if "exc" in rec:
                    ctx.violation("clear-raised", f"{step['what']} clear raised {rec['exc']}", dict(step=step, **meta))
                    return
                # cleared entries are gone: the whole store, or every entry of that function (all instances / classes share its directory)
                for key in list(model):
                    if step["what"] == "memory" or key[0] == step["f"]:
                        del model[key]
                continue
            c, p = rec["cached"], rec["plain"]
            sig = tuple(tuple(s) for s in f["sig"])
            sstr = f"{f['kind']} {gen_sig.sig_str(sig)} ignore={f['ignore']}"
            desc = dict(function=sstr, args=step["args"], kwargs=step["kwargs"], how=step["how"], segment=si, **meta)
            if "exc" in p:
                ctx.count("plain_call_rejected")
                continue
            ctx.count("calls_checked")
            if "exc" in c:
                ctx.violation(f"valid-call-rejected:{c02.predicate_key(f['sig'])}",
                              f"cached {sstr} rejects args={step['args']} kwargs={step['kwargs']} with {c['exc']}: {c['msg'][:120]} although the plain function accepts it", desc)
                return
            fp = repr(p["v"])
            key = (step["f"], step.get("holder") if f["kind"] in ("method", "classmethod") else None)
            known = model.setdefault(key, {})
            want = 0 if fp in known else 1
            form = (repr(step["args"]), repr(sorted(step["kwargs"].items())))
            if fp in known:
                ctx.count("expected_hits")
                if known[fp][0] != si:
                    ctx.count("hits_in_other_process")
                if known[fp][1] != form or known[fp][0] != si:
                    ctx.sig((sstr, fp))
                if known[fp][2] != ignored_values(f, step):
                    ctx.count("ignore_variant_hits")
            if "in_cache_before" in rec:
                ctx.count("check_call_in_cache_queries")
                if rec["in_cache_before"] != (fp in known):
                    ctx.violation(f"check_call_in_cache-wrong:{'says-cached' if rec['in_cache_before'] else 'says-not-cached'}",
                                  f"check_call_in_cache answered {rec['in_cache_before']} for {sstr} args={step['args']} kwargs={step['kwargs']} "
                                  f"but the call {'was' if fp in known else 'was not'} computed before (segment {si} of {meta['nproc']})", desc)
                    return
            if rec["executed"] != want:
                how = "recomputed" if rec["executed"] > want else "not-executed"
                where = "other-process" if fp in known and known[fp][0] != si else "same-process"
                ctx.violation(f"{how}:{f['kind']}:{where}:{c02.predicate_key(f['sig'])}",
                              f"cached {sstr} called with args={step['args']} kwargs={step['kwargs']} executed the body {rec['executed']}x, expected {want} "
                              f"(same bound arguments first computed in segment {known.get(fp, ['-'])[0]} as {known.get(fp, ['', '-'])[1]}; "
                              f"compress={meta['compress']}, {meta['nproc']} process(es))", desc)
                return
            known.setdefault(fp, (si, form, ignored_values(f, step)))
    if len(ctx.samples) < 4:
        ctx.sample(dict(functions=[f"{f['kind']} {gen_sig.sig_str(tuple(tuple(s) for s in f['sig']))} ignore={f['ignore']}" for f in funcs],
                        first_steps=[dict(f=s["f"], args=s["args"], kwargs=s["kwargs"]) for s in segs[0]["steps"][:4]], **meta))


def ignored_values(f, step):
    return repr([step["args"], sorted(step["kwargs"].items())]) if f["ignore"] else None
