"""child of C16: promptness / order / abandonment on a real backend with gate files (batch_size=1)"""
import gc
import json
import os
import queue
import random
import sys
import threading
import time
import warnings

import joblib
from joblib import Parallel, delayed


def gated(i, tag, d):
    open(os.path.join(d, f"started.{tag}.{i}"), "w").close()
    gate = os.path.join(d, f"gate.{tag}.{i}")
    t0 = time.time()
    while not os.path.exists(gate) and time.time() - t0 < 120:
        time.sleep(0.004)
    return (tag, i)


def try_next(g, timeout):
    q = queue.Queue()

    def run():
        try:
            q.put(("v", next(g)))
        except StopIteration:
            q.put(("stop", None))
        except BaseException as e:  # noqa
            q.put(("exc", repr(e)))
    t = threading.Thread(target=run, daemon=True)
    t.start()
    try:
        return q.get(timeout=timeout), q
    except queue.Empty:
        return None, q


def main():
    cfg = json.load(open(sys.argv[1]))
    rng = random.Random(cfg["seed"])
    d, N, J, mode = cfg["dir"], cfg["N"], cfg["J"], cfg["mode"]
    out = dict(checks=0, violations=[], inconclusive=[], order=[])
    p = Parallel(n_jobs=J, backend=cfg["backend"], return_as=mode, batch_size=1, pre_dispatch=cfg["pd"])
    for call in range(2):
        tag = f"t{call}"
        g = p(delayed(gated)(i, tag, d) for i in range(N))
        released, delivered = [], []
        stop_after = rng.randint(0, N - 1) if (cfg["abandon"] and call == 0) else None
        while len(delivered) < N:
            if stop_after is not None and len(delivered) >= stop_after:
                break
            if mode == "generator":
                due = len(delivered) in released
            else:
                due = len(released) > len(delivered)
            if due:
                r, q = try_next(g, 15.0)
                out["checks"] += 1
                if r is None:
                    later = [i for i in range(N) if i not in released]
                    if later:
                        open(os.path.join(d, f"gate.{tag}.{later[-1]}"), "w").close()
                        released.append(later[-1])
                        try:
                            r2 = q.get(timeout=15.0)
                            out["violations"].append(dict(key="not-prompt:waited-for-later-task",
                                                          what=f"result {len(delivered)} due after releasing {released[:-1]} but delivered only after task {later[-1]} was released"))
                        except queue.Empty:
                            out["violations"].append(dict(key="nontermination:next-blocked", what=f"due result never delivered (released {released})"))
                    else:
                        out["inconclusive"].append("slow-delivery")
                    finish(out)
                    return
                want = (tag, len(delivered)) if mode == "generator" else (tag, released[len(delivered)])
                if r != ("v", want) and r != ("v", list(want)):
                    out["violations"].append(dict(key="wrong-order" if mode == "generator" else "not-completion-order",
                                                  what=f"next() gave {r}, promised {want}; released {released}, delivered {delivered}"))
                    finish(out)
                    return
                delivered.append(want)
                continue
            started = [i for i in range(N) if i not in released and os.path.exists(os.path.join(d, f"started.{tag}.{i}"))]
            if not started:
                time.sleep(0.01)
                if time.time() - os.path.getmtime(sys.argv[1]) > 150:
                    out["inconclusive"].append("no-task-started")
                    finish(out)
                    return
                continue
            i = rng.choice(started)
            open(os.path.join(d, f"gate.{tag}.{i}"), "w").close()
            released.append(i)
            if mode == "generator_unordered":
                time.sleep(0.05)  # let this completion be registered before the next release
        out["order"].append(released)
        if stop_after is None:
            r, _ = try_next(g, 15.0)
            if r != ("stop", None):
                out["violations"].append(dict(key="not-exhausted", what=f"after all results next() gave {r}"))
                finish(out)
                return
        else:
            # abandoned: calling again while the run is unfinished must raise RuntimeError
            if len(released) < N:   # some task has certainly not completed: the run is unfinished
                try:
                    p(delayed(gated)(i, "zz", d) for i in range(2))
                    out["violations"].append(dict(key="overlapping-call-accepted", what="second call during an unfinished run did not raise"))
                except RuntimeError:
                    out["checks"] += 1
            t0 = time.time()
            with warnings.catch_warnings():
                warnings.simplefilter("ignore")
                if cfg["abandon"] == "close":
                    g.close()
                else:
                    g = None
                    gc.collect()
            for i in range(N):   # open all gates so that workers are not stuck
                open(os.path.join(d, f"gate.{tag}.{i}"), "w").close()
            if time.time() - t0 > 60:
                out["inconclusive"].append("slow-close")
            # the object must be reusable (the next loop iteration checks exact results); a dropped generator is
            # finalised asynchronously: wait for it
            t1 = time.time()
            while getattr(p, "_running", False) and time.time() - t1 < 30:
                time.sleep(0.01)
    finish(out)


def finish(out):
    with open(sys.argv[2] + ".tmp", "w") as f:
        json.dump(dict(out, joblib=joblib.__file__), f)
    os.replace(sys.argv[2] + ".tmp", sys.argv[2])
    os._exit(0)


if __name__ == "__main__":
    main()
