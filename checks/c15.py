"""C15 - n_jobs bounds concurrency; nesting never multiplies worker processes.

Monitor: tasks log (pid, native thread id, start, end) with the system-wide
monotonic clock; the check computes the high-water mark of simultaneously
running tasks, the set of worker pids and the thread containment of nested
levels, under affinity masks and LOKY_MAX_CPU_COUNT values set per case.
"""

import json
import os
import shutil

from vlib import harness

ID = "C15"
LEVEL = "exploration"
RULE = ("a case is one subprocess with an affinity mask in {1,2,5,16 CPUs} (in one case out of eight observed from a non-main thread that narrowed its own mask to 1-3 CPUs) x LOKY_MAX_CPU_COUNT in {unset,0,1,3,64} x backend in "
        "{loky, threading, multiprocessing, default}: cpu_count() and effective_n_jobs(n) for every n in [-2*cpus, 2*cpus] are "
        "compared with an independent re-derivation, Parallel(n_jobs=0) must raise ValueError, several n_jobs values are run "
        "for real (3*resolved+2 tasks of 20-60 ms) and nesting shapes of depth 3 are executed (the first-level call being a default call, or one with prefer='threads' / require='sharedmem', alone or inside a parallel_config(backend=loky|multiprocessing|threading) block); distinct_nontrivial counts "
        "distinct (mask, env, backend, n_jobs) runs whose tasks really overlapped (high-water mark >= 2) or whose n_jobs resolves to 1"
        " A third of the cases change the mask / LOKY_MAX_CPU_COUNT during the process and observe again; the variable is also spelled ' 3', '+1', '2\\n', '3 '; one case in five makes two overlapping calls inside one parallel_config(backend='threading') block.")
ASSUMPTIONS = [
    "time.monotonic() is CLOCK_MONOTONIC, comparable across processes; timestamps are taken inside the tasks",
    "reference cpu_count = max(1, min(os.cpu_count(), affinity mask size, cgroup quota, LOKY_MAX_CPU_COUNT))",
    "nesting rule of the statement: level >= 1 tasks run in pids of level-0 workers; level >= 2 tasks run in their parent task's thread",
    "fan-out is limited so that the machine is not saturated",
]
SHARDS = {"quick": 5, "thorough": 6}
FLOORS = {"quick": {"cases_whose_cpu_limits_change_during_the_process": 8, "cases_observed_from_a_thread_with_its_own_affinity_mask": 3, "arith_observations": 400, "real_runs": 120, "runs_with_overlap": 50, "nested_runs": 12, "nested_runs_with_hints_or_contexts_at_the_first_level": 8},
          "thorough": {"cases_observed_from_a_thread_with_its_own_affinity_mask": 30, "arith_observations": 4000, "real_runs": 800, "runs_with_overlap": 400, "nested_runs": 100, "nested_runs_with_hints_or_contexts_at_the_first_level": 60}}
CHILD = os.path.join(harness.VERIF, "checks", "c15_child.py")


def cases(tier, seed):
    rng = harness.rng_for(seed, ID, "cases")
    masks = [1, 2, 5, 16]
    # (the variable is text: spellings int() accepts - blanks, a trailing newline, a leading plus - mean the same number)
    envs = [None, 0, 1, 3, 64, " 3", "+1", "2\n", "3 "]
    backends = ["loky", "threading", "multiprocessing", "default"]
    combos = [(m, e, b) for m in masks for e in envs for b in backends]
    rng.shuffle(combos)
    n = 40 if tier == "quick" else len(combos) * 4
    for i in range(n):
        m, e, b = combos[i % len(combos)]
        tm = None
        if i % 4 == 1 and m >= 2:
            tm = min([1, 2, 3][(i // 4) % 3], m - 1)      # everything is observed from a non-main thread that narrowed its own mask
        cpus = max(1, min(tm or m, 16, int(e) if e is not None else 16))
        rng2 = harness.rng_for(seed, ID, "case", i)
        rng_run = sorted({1, -1, 3, rng2.choice([2, 4, cpus, cpus + 1, 2 * cpus]), rng2.choice([-2, -cpus, -cpus - 1, -2 * cpus])} - {0})
        rng_run = [x for x in rng_run if abs(x) <= 10]
        nest = None
        if i % 2 == 0:
            # the call made at the first nesting level: default, or with hints / constraints / inside a context block that
            # still resolve to threads; the third level is always a default call and must run in its parent's thread
            nest = dict(depth=3, outer_n=rng2.choice([2, 3]), inner_n=2,
                        mid_style=["default", "require-sharedmem", "ctx-loky+require-sharedmem", "prefer-threads", "ctx-threading", "ctx-multiprocessing+require-sharedmem",
                                   "prefer-threads+require-sharedmem"][(i // 2) % 7])
        phases = []
        if i % 3 == 2:
            # the limits change during the life of the process (after negative n_jobs values were resolved and pools were sized)
            m2 = rng2.choice([x for x in masks if x <= (tm or m)])        # a thread can only narrow its mask further here
            e2 = rng2.choice([None, 1, 2, 3])
            phases.append(dict(mask=m2, loky_max=e2))
            if rng2.random() < 0.5:
                phases.append(dict(mask=m2, loky_max=rng2.choice([None, 2, 64])))
        overlap = None
        if i % 5 == 3:
            # inside one parallel_config(backend=...) block: a generator call still running with n1 workers, then a call with n2 < n1
            overlap = dict(backend="threading", n1=rng2.choice([3, 4]), n2=2)    # (loky: overlapping calls with other executor arguments dead-lock, see 0.1 "observed outside the statements")
        yield dict(i=i, mask=m, thread_mask=tm, loky_max=e, backend=b, n_jobs_arith=list(range(-2 * cpus - 1, 2 * cpus + 2)),
                   n_jobs_run=rng_run, nest=nest, phases=phases, overlap_ctx=overlap)


def high_water(rows):
    ev = []
    for r in rows:
        ev.append((r[3], 1))
        ev.append((r[4], -1))
    ev.sort(key=lambda x: (x[0], x[1]))
    cur = best = 0
    for _, d in ev:
        cur += d
        best = max(best, cur)
    return best


def run_case(case, ctx):
    d = harness.mkscratch("vjl-c15-")
    try:
        cf, of = os.path.join(d, "cfg.json"), os.path.join(d, "out.json")
        with open(cf, "w") as f:
            json.dump(dict(case, dir=d), f)
        r = harness.run_py([CHILD, cf, of], timeout=240, result_file=of)
        ctx.evaluated()
        desc = {k: case[k] for k in ("mask", "thread_mask", "loky_max", "backend")}
        if case.get("thread_mask"):
            ctx.count("cases_observed_from_a_thread_with_its_own_affinity_mask")
        if r["result"] is None:
            ctx.inconclusive("child-failed", dict(desc, rc=r["rc"], err=r["err"][-700:]))
            return
        o = r["result"]
        if case.get("phases"):
            ctx.count("cases_whose_cpu_limits_change_during_the_process")
            desc["phases"] = case["phases"]
        for got, ref in o.get("cpu_counts", [[o["cpu_count"], o["ref_cpu_count"]]]):
            if got != ref or got < 1:
                ctx.violation("cpu_count", f"cpu_count()={got} but reference {ref} under {desc}", desc)
        threads_only = case["backend"] == "threading"
        for rec in o["obs"]:
            ctx.count("arith_observations")
            want = rec["want"]
            if rec["n"] == 0:
                if rec.get("parallel") != "ValueError":
                    ctx.violation("n_jobs-0-accepted", f"Parallel(n_jobs=0) under {desc}: {rec}", dict(desc, rec=rec))
                continue
            if rec["effective"] != want:
                ctx.violation("effective_n_jobs", f"effective_n_jobs({rec['n']})={rec['effective']} but resolved n_jobs is {want} (cpu_count {o['cpu_count']}) under {desc}", dict(desc, rec=rec))
        for run in o["runs"]:
            ctx.count("real_runs")
            hw = high_water(run["rows"])
            pids = {r[1] for r in run["rows"]}
            want = run["want"]
            d2 = dict(desc, n_jobs=run["n"], resolved=want, N=run["N"], high_water=hw, worker_pids=len(pids))
            if not run["ok"] or len(run["rows"]) != run["N"]:
                ctx.violation("wrong-result", f"run {d2} returned wrong results / {len(run['rows'])} executions", d2)
            if hw > want:
                ctx.violation("concurrency-exceeds-n_jobs", f"{hw} tasks ran simultaneously with n_jobs={run['n']} (resolved {want}) under {desc}", d2)
            if not threads_only and len(pids) > want:
                ctx.violation("more-worker-processes-than-n_jobs", f"{len(pids)} distinct worker pids with n_jobs={run['n']} (resolved {want}) under {desc}", d2)
            if want == 1:
                cp, ct = run["caller"]
                if any((r[1], r[2]) != (cp, ct) for r in run["rows"]):
                    ctx.violation("n_jobs-1-not-in-calling-thread", f"n_jobs={run['n']} resolves to 1 but tasks ran in {sorted({(r[1], r[2]) for r in run['rows']})[:3]}, caller {(cp, ct)}", d2)
            if hw >= 2:
                ctx.count("runs_with_overlap")
            if hw >= 2 or want == 1:
                ctx.sig((case["mask"], case["loky_max"], case["backend"], run["n"]))
            ctx.maxi("max_high_water", hw)
        if o.get("overlap"):
            ov = o["overlap"]
            ctx.count("overlapping_calls_inside_one_context_block")
            hw = high_water(ov["rows"])
            d2 = dict(desc, overlap=dict(n1=ov["n1"], n2=ov["n2"], backend=ov["backend"]), high_water=hw)
            if not ov["ok"] or len(ov["rows"]) != ov["N"]:
                ctx.violation("wrong-result:overlapping-calls-in-one-context-block", f"the second call returned wrong results / {len(ov['rows'])} executions; {d2}", d2)
            elif hw > ov["n2"]:
                ctx.violation("concurrency-exceeds-n_jobs:overlapping-call-sharing-the-context-backend",
                              f"{hw} tasks of a call with n_jobs={ov['n2']} ran simultaneously: inside parallel_config(backend={ov['backend']!r}) a generator call with n_jobs={ov['n1']} "
                              f"was still alive and the two calls share the block's backend instance; {d2}", d2)
        if o["nest"]:
            ctx.count("nested_runs")
            if o["nest"]["cfg"].get("mid_style", "default") != "default":
                ctx.count("nested_runs_with_hints_or_contexts_at_the_first_level")
            rows = o["nest"]["rows"]
            lvl0 = {r[1] for r in rows if r[0] == 0}
            allp = {r[1] for r in rows}
            d2 = dict(desc, nest=o["nest"]["cfg"], level0_pids=len(lvl0), all_pids=len(allp))
            if allp - lvl0:
                ctx.violation("nesting-spawned-processes", f"nested levels ran in pids that are not level-0 workers: {sorted(allp - lvl0)[:4]}; {d2}", d2)
            for r in rows:
                if r[0] >= 2 and (r[1], r[2]) != (r[4], r[5]):
                    ctx.violation("deep-nesting-not-sequential", f"a level-{r[0]} task ran in (pid,tid)={(r[1], r[2])} but its parent task in {(r[4], r[5])}; {d2}", d2)
                    break
            exp = sum((o["nest"]["cfg"]["outer_n"] + 1) * (o["nest"]["cfg"]["inner_n"] + 1) ** k for k in range(3))
            if len(rows) != exp:
                ctx.violation("nested-tasks-lost", f"{len(rows)} nested task executions, expected {exp}; {d2}", d2)
            ctx.sig((case["mask"], case["loky_max"], case["backend"], "nest", o["nest"]["cfg"]["outer_n"]))
        if case["i"] % 6 == 0:
            ctx.sample(dict(desc, cpu_count=o["cpu_count"], runs=[dict(n_jobs=x["n"], resolved=x["want"], high_water=high_water(x["rows"]),
                                                                       worker_pids=len({r[1] for r in x["rows"]})) for x in o["runs"]]))
    finally:
        shutil.rmtree(d, ignore_errors=True)
