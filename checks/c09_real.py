"""child of C09 (scenario H): a failure on a REAL pool while every other task of the call is held back by a gate.

argv: cfg.json out.json.  One Parallel call over an instrumented input of N tasks: every task but one waits for a gate
file; the remaining one, part of the initial pre-dispatch, fails at once - by raising, or in TRANSPORT (its result, its
exception or its argument cannot be pickled, which the pools report through another path than a raising task).  With
the gate closed no task completes, so nothing justifies taking another item: the call has to raise with exactly the
pre-dispatched items taken.  The parent opens the gate only if the call has not ended long after the failure."""
import faulthandler
import json
import os
import signal
import sys
import threading
import time
import warnings

faulthandler.register(signal.SIGUSR1, all_threads=True)

import joblib  # noqa: E402
from joblib import Parallel, delayed  # noqa: E402

from vlib.c09_tasks import held_task  # noqa: E402


def main():
    cfg = json.load(open(sys.argv[1]))
    gate = cfg["gate"]
    pulls = []
    lock = threading.Lock()
    concurrent = [0, 0]

    def src():
        for i in range(cfg["N"]):
            with lock:
                concurrent[0] += 1
                concurrent[1] = max(concurrent[1], concurrent[0])
                pulls.append((i, time.monotonic(), threading.get_ident()))
            how = cfg["failure"] if i == cfg["fail_at"] else None
            arg = threading.Lock() if how == "unpicklable-argument" else None
            with lock:
                concurrent[0] -= 1
            yield delayed(held_task)(i, gate, how, arg)

    out = dict(joblib=joblib.__file__, pid=os.getpid())
    state = {}

    def call():
        try:
            with warnings.catch_warnings():
                warnings.simplefilter("ignore")
                p = Parallel(n_jobs=cfg["J"], backend=cfg["backend"], batch_size=1, pre_dispatch=cfg["pd"], return_as=cfg["ra"], timeout=cfg.get("timeout"))
                r = p(src())
                state["out"] = list(r)
        except BaseException as e:  # noqa
            state["exc"] = [type(e).__name__, str(e)[:300]]
        state["t_end"] = time.monotonic()
        state["pulled_at_end"] = len(pulls)

    t0 = time.monotonic()
    th = threading.Thread(target=call, daemon=True)
    th.start()
    th.join(cfg["wait_closed_s"])
    out["ended_with_gate_closed"] = not th.is_alive()
    out["pulled_with_gate_closed"] = len(pulls)
    if th.is_alive():
        # long after the failure the call is still going on: let the held tasks finish and see whether that ends it
        with open(gate, "w"):
            pass
        th.join(cfg["wait_open_s"])
        out["ended_after_gate_opened"] = not th.is_alive()
    out.update(exc=state.get("exc"), n_results=len(state["out"]) if "out" in state else None, pulled_at_end=state.get("pulled_at_end"),
               pulled_total=len(pulls), seconds=round(state.get("t_end", time.monotonic()) - t0, 2), max_concurrent_pullers=concurrent[1],
               pull_threads=len({p[2] for p in pulls}))
    with open(gate, "w"):
        pass
    with open(sys.argv[2] + ".tmp", "w") as f:
        json.dump(out, f)
    os.replace(sys.argv[2] + ".tmp", sys.argv[2])
    os._exit(0)


if __name__ == "__main__":
    main()
