#!/usr/bin/env python3
"""Regenerate MANIFEST.json from the table below and validate it."""
import json
import os
import subprocess
import sys

HERE = os.path.dirname(os.path.dirname(os.path.abspath(__file__)))

# id -> (category, technique, level text, level note, design ref, engine)
CHECKS = {
    "C07": (
        "exploration",
        "differential runtime oracle: real filter_args vs inspect.Signature.bind over an exhaustive enumeration of signatures x call shapes",
        "Every grammatical signature with <= 5 (quick) / 6 (thorough) parameters over the five parameter kinds x default/no default, as plain functions and as bound methods, is compiled from source and every call shape Python accepts is executed against the real filter_args; the result must equal what Signature.bind binds, also under rotating ignore lists of <= 2 names. Exhaustive within the bound, observed on real executions.",
        "Trusts inspect.Signature.bind as the definition of Python's binding; signatures beyond the bound and exotic callables (C functions, functools.wraps chains) are not driven.",
        "3/C07", "sigenum"),
}

PENDING_REASON = "check not built yet in this tree (see DESIGN.md section 8 build order); nothing is claimed for it"


def main():
    props = [json.loads(l)["id"] for l in open(os.path.join(HERE, "properties.jsonl"))]
    checks = []
    for pid in props:
        if pid not in CHECKS:
            continue
        cat, tech, text, note, ref, engine = CHECKS[pid]
        checks.append(dict(
            property_id=pid,
            quick_cmd=f"./vcheck {pid} quick",
            thorough_cmd=f"./vcheck {pid} thorough",
            evidence_file=f"evidence/{pid}.json",
            replay_cmd_template=f"./vcheck {pid} --replay {{path}}",
            engine=engine,
            level_claimed=dict(category=cat, text=text, design_ref=f"DESIGN.md section {ref}"),
            level_note=note,
            technique=tech,
        ))
    na = [dict(property_id=p, reason=NOT_APPLICABLE.get(p, PENDING_REASON)) for p in props if p not in CHECKS]
    hooks_commits = []
    m = dict(
        version=1,
        setup_cmd="./setup.sh",
        hooks=dict(
            guard="JOBLIB_VERIF",
            enable="no source hook is compiled into /repo: checks import /repo's working tree directly (PYTHONPATH=/repo) and observe it through public seams (backend extension API, task functions, input iterables, the file system via an LD_PRELOAD interposer, /proc, sys.monitoring); JOBLIB_VERIF=1 is exported by ./vcheck but nothing in joblib reads it",
            baseline_off_cmd="cd /repo && /venv/bin/python -m pytest -ra -q -p no:cacheprovider --timeout=900 --continue-on-collection-errors",
            source_commits=hooks_commits,
            add_only=True,
        ),
        engines=ENGINES,
        checks=checks,
        notes="Runtime monitoring only: every verdict comes from an oracle observing executions of /repo's working tree. Exit 0 held / 1 VIOLATION / 2 INCONCLUSIVE (monitor observed too little). Known findings: known_findings.json.",
        not_applicable=na,
    )
    path = os.path.join(HERE, "MANIFEST.json")
    with open(path, "w") as f:
        json.dump(m, f, indent=1)
        f.write("\n")
    try:
        r = subprocess.run(["python3-vt", "-c", (
            "import json,jsonschema,sys;"
            "jsonschema.validate(json.load(open(sys.argv[1])), json.load(open('/root/.vp/MANIFEST.schema.json')));print('MANIFEST valid')"), path])
        return r.returncode
    except FileNotFoundError:
        return 0


NOT_APPLICABLE = {}

ENGINES = [
    dict(name="harness", path="vlib/harness.py", serves_properties=["*"],
         kind_free_text="case runner: sharding over subprocess sessions, three-valued verdicts, evidence, known-findings matcher, replay"),
    dict(name="sigenum", path="vlib/gen_sig.py", serves_properties=["C07", "C02", "C06"],
         kind_free_text="exhaustive generator of Python signatures and call shapes as real source text"),
]

if __name__ == "__main__":
    sys.exit(main())
