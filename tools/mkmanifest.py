#!/usr/bin/env python3
"""Regenerate MANIFEST.json from the table below and validate it."""
import json
import os
import subprocess
import sys

HERE = os.path.dirname(os.path.dirname(os.path.abspath(__file__)))

# id -> (category, technique, level text, level note, design ref, engine)
CHECKS = {
    "C01": (
        "exploration",
        "trace monitor on a check-owned backend (seeded completion order, 1-3 callback threads, synchronous in-submit completion) with sys.monitoring pre-emption injection, instrumented input and execution log; real backends in subprocess sessions",
        "Parallel calls over the configuration space (N around every slice boundary, n_jobs, fixed/auto batch size, every pre_dispatch form, list/generator) run on a backend plugged in through joblib's public backend API whose completion order, callback threads and in-submit completions are chosen by the check, with seeded thread switches injected at line granularity inside joblib/parallel.py; the result list must equal the sequential evaluation, every task index must appear exactly once in the execution log, no item may be submitted twice and the input must never be entered by two threads. The same oracle runs on threading, loky, multiprocessing and the sequential path with seeded task durations.",
        "Schedules are sampled, not enumerated (distinct completion orders are counted); hangs are decided by quiescence of the check-owned backend, never by a clock alone.",
        "3/C01", "scripted-backend"),
    "C04": (
        "exploration",
        "history monitor on the check-owned backend: fail/ok/iterator-failure/timeout histories on one Parallel object with late completions delivered after the abort, during the next call's set-up and after it started; real backends with resource-growth counters",
        "Histories of 2-6 calls on one Parallel object (inside and outside with) mix successful calls, task failures at any position, failing iterator steps and never-completing batches under a timeout; the check delivers completions in seeded order from 1-3 threads, including completions of aborted batches while the next call is being configured or running. Each call must raise an exception carrying this call's tag (or TimeoutError), terminate, and the next call must return exactly its own results; thread and child-process counts are bounded over repeated cycles on threading / loky / multiprocessing.",
        "Timeout verdicts are logical (quiescent backend, only the deliberately held batch pending); a TimeoutError in a call whose batches all complete is counted inconclusive.",
        "3/C04", "scripted-backend"),
    "C09": (
        "exploration",
        "event-log monitor: instrumented input iterator + submit/complete events of the check-owned backend; withheld completions released one at a time, failure/close followed by late completions, free-running and adversarial start-phase schedules",
        "With every completion withheld the number of items taken must stop by itself at the pre-dispatch amount (all of them for 'all'); releasing one batch at a time, pulled-completed must stay within G = B0*b + b*n_jobs, in-flight batches within B0 and each completion may let at most one slice through; after a registered failure (also one delivered while the caller is still in its initial dispatch loop) or a closed generator no further item may be taken whatever completes later; free-running seeded schedules check the same invariants at every pull with stolen in-flight slots accounted, and re-entrancy of the input. On real pools (threading, loky, multiprocessing) one pre-dispatched task fails - by raising or in transport (unpicklable result / exception / argument) - while every other task is held behind a gate file: the call must raise with exactly the pre-dispatched items taken; and a generator closed from another thread, with joblib's detached clean-up thread held back, must not take a further item once close() has returned.",
        "G is derived from the dispatch arithmetic (confirmed on the tree); the start-phase steal is recorded as a known finding and tolerated only within its accounting.",
        "3/C09", "scripted-backend"),
    "C15": (
        "exploration",
        "runtime monitor on task-side event logs: (pid, native thread id, start, end) per task on the system-wide monotonic clock; sweep-line high-water mark, worker-pid sets and thread containment of nested levels, under per-case affinity masks and LOKY_MAX_CPU_COUNT",
        "Each case is a subprocess with an affinity mask (1, 2, 5, 16 CPUs) and a LOKY_MAX_CPU_COUNT value (unset, 0, 1, 3, 64) on loky / threading / multiprocessing / the default backend: cpu_count() and effective_n_jobs(n) for every n in [-2*cpus-1, 2*cpus+1] are compared with an independent re-derivation (min of OS count, mask, cgroup quota, env var; floor 1), Parallel(n_jobs=0) must raise, several n_jobs values are run for real with 3*resolved+2 overlapping tasks - the high-water mark of simultaneously running tasks and the number of worker pids must not exceed the resolved n_jobs, n_jobs resolving to 1 must run in the calling thread - and nesting shapes of depth 3 must keep every deeper task in a level-0 worker pid and level >= 2 tasks in their parent task's thread.",
        "Timestamps are taken inside the tasks with CLOCK_MONOTONIC; fan-out is limited so that concurrency really happens; the cgroup quota present in the sandbox is whatever the image provides.",
        "3/C15", "harness"),
    "C16": (
        "exploration",
        "stepped schedule monitor: the check completes batches one at a time and pulls every due result with no other batch released; abandonment (close / drop+gc / overlapping call) at seeded points; gated runs on threading and loky",
        "For generator and generator_unordered outputs the check decides the completion order batch by batch; whenever a result is due (its batch and all earlier ones completed) next() must deliver exactly the promised value while nothing else is released - delivery only after a later release is the violation witness; unordered outputs must follow completion order, each exactly once. At seeded points the generator is closed (in the dispatching thread or another one), dropped and collected, or the object is called again: no submit or pull may follow, late completions must be harmless, an unfinished run must reject a new call with RuntimeError, and the next call must be exact.",
        "Promptness at batch granularity (statement verbatim for batch_size=1, which the real-backend runs use); 5 s per due result is a watchdog that only classifies - the verdict needs the release witness.",
        "3/C16", "scripted-backend"),
    "C02": (
        "exploration",
        "differential runtime monitor: generated functions (real source) returning typed fingerprints of their bound arguments, each call made through the cached wrapper and through the plain function, over histories with near-colliding twins, call forms, shelving, compression and several fresh processes",
        "Functions over all signatures with <= 4 parameters (plain, bound methods whose instance state is in the result, async) are written to a scratch module and cached by Memory; histories of 60-150 calls mix equivalent call forms, near-colliding values (1 / 1.0 / True / '1', 'a' / b'a', list / tuple, set / frozenset), dict and set arguments rebuilt in other insertion orders, direct calls and call_and_shelve().get(), compress False / True / 3, in one process or 2-3 fresh processes with different hash seeds sharing the directory. Every cached value must equal the plain function's typed fingerprint.",
        "Functions are pure by construction; <= 4 parameters; value nesting <= 3; partial objects are driven by C07 only (filter_args returns raw args for them).",
        "3/C02", "memhist"),
    "C03": (
        "exploration",
        "runtime round-trip monitor: real dump/load on generated objects under sampled (compress, protocol, target, load-from) combinations, structural-isomorphism oracle, renamed-file reloads",
        "Objects from a recursive generator (builtin scalars/containers, user classes, shared and cyclic references, payloads at the 8 KiB / 64 KiB / 1 MiB boundaries, containers holding numpy arrays) are dumped with every form of the compress argument (bool, 0-9, name, (name, level), extension-implied, mismatching name vs extension), protocols 0-5, to paths, Path objects, open files and BytesIO, loaded back from path / file object / buffer, and compared by an isomorphism that checks values and aliasing; each file is then renamed to every other extension and loaded again; the compressor actually found in the file content is compared with the documented choice.",
        "iso() is the equality notion; lz4 absent (only the ValueError is asserted); sampling over the configuration product, not exhaustive.",
        "3/C03", "objuniverse"),
    "C14": (
        "fault_enumeration",
        "fault injection on files with resource-budget monitors: every truncation (exhaustive <= 4 KiB) and a suffix set applied to valid files, loads run under executed-line / CPU / address-space budgets; Memory entries damaged likewise",
        "Valid files from the C03 generator (all compressors, protocols 2-5, numpy arrays) are truncated at every length (files <= 4 KiB; boundary-biased beyond) and extended with 1 byte, junk, a second copy and a different valid stream; each damaged load must raise or return an object isomorphic to the original within budgets of executed lines in joblib's persistence modules, own CPU time and 2 GiB address space (exceeding one is the non-termination witness). Warm Memory entries are damaged the same ways and the cached call must return the plain value without raising.",
        "Budgets are orders of magnitude above the undamaged load (baseline recorded); damage is truncation/extension only (no bit flips); loads go through BytesIO for the file clause and through real files for the Memory clause.",
        "3/C14", "budgets"),
    "C05": (
        "fault_enumeration",
        "crash-point enumeration with an LD_PRELOAD libc interposer: SIGKILL before every mutating file-system call under the cache directory (plus page-boundary torn writes), recovery checked in fresh processes",
        "Ten Memory workloads (cold, warm, source change, validation-callback invalidation, call_and_shelve, compressed, reduce_size, clear, multi-page results, multi-page func_code.py) are first run under the interposer in log mode to list their mutating calls; each is then re-run from the same pre-state once per crash point and SIGKILLed there by the interposer (exit status -9 is verified); every crashed directory is recovered twice in fresh processes (plain, and with expires_after(days=1)): every output.pkl visible must load to a complete legitimate result and every cached call must return the plain value without raising. Exhaustive over the enumerated crash points of these workloads; the thorough tier cross-checks the interposer's log against strace.",
        "Crash model: process death on a local file system, directory operations atomic, torn writes at page granularity, single writer. Power loss / lost fsync is outside the property.",
        "3/C05", "fsshim"),
    "C11": (
        "exploration",
        "turn-based scheduling of real processes at file-system-call granularity (LD_PRELOAD interposer + coordinator): seeded PCT-like schedules with <= 3 pre-emptions and random walks over call / reduce_size / clear / observer participants",
        "2-4 participant processes (some with two threads) run short scripts of cached calls, call_and_shelve, reduce_size, Memory.clear / func.clear and a read-only observer on one cache directory; every watched libc call (reads, stats and directory listings included) blocks until the coordinator grants the turn, so the interleaving is chosen by the check and recorded (its hash is the unit of distinct schedules). Every cached call must return a valid value and must not raise; whatever is visible under a final name, at any scheduled instant (observer) and at the end, must be one complete result - results are writer-specific so a mixture cannot be valid. Thread storms (2-4 calling threads, 1-2 disturbers of one process, identically named in a third of the rounds, sys.monitoring pre-emption inside joblib's memory / store modules) add the races no file-system call separates; every result file left at the end of a round is read back, and a logging handler classifies every load joblib silently recovered from (vanished entry: fine; unreadable content: a reader saw an incomplete file under its final name).",
        "File-system calls are serialised: races inside one call's kernel execution are not explored. Participants silent for 0.6 s are skipped, never forced. Exceptions inside clear()/reduce_size() themselves are observations only.",
        "3/C11", "fsshim"),
    "C06": (
        "exploration",
        "execution-count monitor against a set model: the function bodies log their executions; a call whose fingerprint of bound non-ignored arguments is already in the model must execute 0 times (same process or another one), check_call_in_cache must predict it, valid calls must be accepted",
        "On the same generated functions and histories as C02, now with ignore lists (every subset of <= 2 names incl. '*' and '**') and varied values for ignored parameters, the model is the set of fingerprints computed so far per function (per instance state for methods). Each call is preceded by check_call_in_cache (must equal membership in the model), must execute the body exactly once when new and not at all when known - whatever the call form, dict / set insertion order, process or PYTHONHASHSEED - and must never be rejected when the plain function accepts it.",
        "No eviction / clear / source change in these histories (C18 / C12 cover those); cross-process reuse asserted for functions importable by name.",
        "3/C06", "memhist"),
    "C07": (
        "exploration",
        "differential runtime oracle: real filter_args vs inspect.Signature.bind over an exhaustive enumeration of signatures x call shapes",
        "Every grammatical signature with <= 5 (quick) / 6 (thorough) parameters over the five parameter kinds x default/no default, as plain functions and as bound methods, is compiled from source and every call shape Python accepts is executed against the real filter_args; the result must equal what Signature.bind binds, also under rotating ignore lists of <= 2 names. Exhaustive within the bound, observed on real executions.",
        "Trusts inspect.Signature.bind as the definition of Python's binding; signatures beyond the bound and exotic callables (C functions, functools.wraps chains) are not driven.",
        "3/C07", "sigenum"),
    "C08": (
        "exploration",
        "cross-process differential monitor: K interpreters with different PYTHONHASHSEED rebuild a seeded value universe in permuted insertion orders; digests compared per value and digest->canonical-form injectivity checked over the whole universe",
        "joblib.hash is executed on every value of a seeded recursive universe (plus the explicit near-colliding pairs of the statement) in 4 (quick) / 8 (thorough) interpreter processes with different string-hash seeds, each with two insertion-order permutations and with shared vs distinct equal strings, md5 and sha1; all digests of a value must agree and distinct canonical forms must get distinct digests (all pairs, by grouping).",
        "Canonical form defines 'same value'; aliased sub-objects, NaN in sets and ==-equal keys of different type in one container are excluded by the statement; instances of dict / set / frozenset subclasses and Decimal leaves are in the universe; a numpy family (dtypes, numpy scalars, C / Fortran arrays, zero arrays sharing bytes across dtypes and shapes) is hashed in processes with numpy loaded, and one process of every other value has numpy loaded too (NumpyHasher must agree with Hasher).",
        "3/C08", "objuniverse"),
    "C10": (
        "fault_enumeration",
        "fault injection into real loky workers (victims x signal x life-cycle instant, incl. death while the result message is partly written via the interposer's pipekill mode), one subprocess session per history, hang classification from paired stack dumps",
        "Histories of 2-5 Parallel calls on the loky backend (with / without a with block, n_jobs 2-4) get one injected worker death: SIGKILL / SIGSEGV / os._exit / SIGTERM at argument unpickling, task start, mid-task, task end, result pickling, while the result message is being written (small and large), while idle between calls, or during the next call's start-up, a resize or a graceful replacement of the executor, or after every worker idled out; task arguments range up to 1.5 MB (the call queue's feeder thread is then blocked in a write when the worker dies). Each call must return exactly the expected list or raise a BrokenProcessPool subclass, at most one call may fail per fault, the following call must be exact and computed by live pids, and the history must finish within the watchdog - a run that does not is a hang only when two stack dumps 10-15 s apart are identical.",
        "Quick enumerates every instant x signal once; the cross product with victims / n_jobs / call position is sampled in thorough. Wall-clock only produces inconclusive verdicts; the known hang (partial result message) is keyed by the blocked frame, not by the instant.",
        "3/C10", "fsshim"),
    "C12": (
        "exploration",
        "history monitor: executed define/call histories over same-named function versions that return their own tag and log their executions; in-session (exec'd cells, lambdas, nested, module reload, __code__ swaps incl. forced id reuse) and across fresh processes sharing the cache",
        "Histories of define(version k) / call(live version j, argument a) over <= 3 versions are enumerated exhaustively up to length 4 (quick) / 5 (thorough) and sampled up to length 12 in five same-session styles, and run as sequences of fresh processes (module file or __main__ script rewritten between sessions, including sessions that change nothing). Every call must return the tag of the code that was called and execute nothing else; a session whose code did not change must not recompute entries that existed. A third of the in-session calls go through a cloudpickled copy of the wrapper; module sessions have their source file rewritten between import and first call in part of the version changes; a live older process is interleaved with fresh ones.",
        "Source is what joblib reads from disk: in the reload style each definition is called once before the next rewrite; closures differing only in captured values are outside the statement.",
        "3/C12", "harness"),
    "C13": (
        "exploration",
        "model-based runtime monitor: every operation on the real BinaryZlibFile/BinaryGzipFile is mirrored on a reference stream; stdlib decoders check produced bytes; per-operation line/CPU/address-space budgets decide non-termination",
        "Seeded operation sequences (read(n), read(), readinto, readline, tell, seek with all whence values, forwards/backwards/past the end) on payloads around the 8192-byte block boundaries, on BytesIO and real files, for data written by joblib (any chunking, level 1..9, bytes and memoryview) and by the stdlib; each result and position is compared with a 30-line clamping reference stream. An operation exceeding its executed-lines / CPU-time / 1 GiB address-space budget is a non-termination witness.",
        "Reference stream is the specification; only seek targets >= 0 are in the domain; sampling, not exhaustive.",
        "3/C13", "budgets"),
    "C17": (
        "exploration",
        "runtime differential monitor: executed nestings of parallel_config/parallel_backend in lock-step threads, each observation (get_active_backend, Parallel(**explicit)) compared with a reference precedence lattice",
        "Programs of nested contexts (depth <= 4, any subset of the eight settings, exits by fall-through or exception, old and new API, custom backend instances) are executed in 1-3 threads stepping through barriers; after every enter/exit each thread constructs Parallel with several explicit-argument subsets and queries get_active_backend(), and the observed backend class, n_jobs, verbose and backend kwargs must equal the reference resolution of that thread's own stack; the main thread must observe nothing. Depth <= 2 single-key contexts are enumerated, the rest sampled.",
        "Reference lattice follows the statement plus the one carve-out the repository's suite asserts (n_jobs reset when a context's explicit backend is replaced by the thread fallback); where the statement leaves n_jobs open both values are accepted; LIFO usage only; construction only, no workers started.",
        "3/C17", "harness"),
    "C18": (
        "exploration",
        "runtime monitor with declarative oracle: real stores, own stat inventory before/after reduce_size, minimal-LRU-prefix conditions, then re-calls counted for hit/recompute",
        "Stores of 0-12 entries are built by real cached calls (two functions, optional compression, zero-size entries), access times set explicitly (ties, increasing, spread), and reduce_size is called with limit triples including None, 0, exact fit (also spelled as K/M strings), fit-1 and ages between entries; survivors must meet every limit, be no older than any evicted entry, the eviction must be minimal, survivors must hit without executing and evicted entries recompute exactly once.",
        "No concurrent writer; age deadlines kept >= 60 s from any entry; ties may break either way; the store's own notion of entry size (sum of file sizes) is used.",
        "3/C18", "harness"),
    "C19": (
        "exploration",
        "runtime round-trip / mmap / worker monitors on generated numpy arrays: exact dtype-shape-order-bytes oracles after dump/load, memmap type-file-alignment-content-write-through checks, task-side probes of arrays passed to loky / multiprocessing workers",
        "Arrays over 31 dtypes (bool, ints, floats, complex, S, U, datetime64 / timedelta64 with units, structured with nested / sub-array / mixed-endian fields, object; both byte orders) x 10 shapes (0-d, empty, n-d) x 7 layouts (C, F, sliced, transposed, offset view, negative stride, broadcast) x subclasses (ndarray, np.matrix, two user subclasses), bare or inside containers with neighbour arrays, are (A) dumped and loaded under every compressor / level / protocol / target and compared for exact dtype (ensure_native_byte_order=False), shape, order flags and element bytes (default load: documented byte-order normalisation only); (B) loaded with mmap_mode r / r+ / c / w+ and checked for np.memmap type, file, 16-byte aligned offset and data pointer, the file bytes at that offset, contents, and write-through vs copy-on-write; (C) passed to loky and multiprocessing workers with max_nbytes in {None, size-1, size, size+1, '1K', 0}, plain and memmap-backed, the task reporting dtype, shape and a value digest.",
        "numpy 2.5.3 from the offline wheelhouse. Arrays numpy pickles itself (user subclasses, small worker arguments) lose non-native byte order inside numpy: for them dtype is compared up to byte order. Aliasing between arrays is not asserted.",
        "3/C19", "harness"),
    "C20": (
        "exploration",
        "reference-model monitor of the real resource-tracker process: seeded request scripts from 1-3 real client processes (loky ResourceTracker API on an inherited pipe), sentinel-based synchronisation after every request, disk state compared with a ref-count registry; clients exit or are SIGKILLed at seeded positions",
        "The tracker's main() runs as a real process fed by a pipe whose write end is inherited by 1-3 client processes; scripts of REGISTER / MAYBE_UNLINK / UNREGISTER over files, folders and files inside tracked folders are salted with malformed lines (garbage, non-ASCII, unknown type or command, decrement / unregister of unknown names) and client exits or SIGKILLs. After every request a sentinel proves the tracker has processed it; then every tracked path, folder and decoy must exist exactly when the ref-count model says so, the tracker must still be alive, and after the last descriptor is closed it must exit 0 having deleted exactly what was still registered.",
        "FIFO pipe + sequential tracker loop justify the sentinel; a file inside a folder whose own count reaches zero disappears with the folder (modelled); a second layer runs the tracker through joblib itself: a loky Parallel call with automatically memmapped arguments whose parent exits or is SIGKILLed during / between / after calls; once the parent and every worker are gone the memmapping folder must be gone; a third layer ends the client the way a terminal or killall does: its whole process group, the tracker (started by the real ensure_running()) included, receives SIGINT / SIGTERM 0-300 ms after the registrations, and what was registered must be deleted.",
        "3/C20", "harness"),
}

PENDING_REASON = "check not built yet in this tree (see DESIGN.md section 8 build order); nothing is claimed for it"


def main():
    props = [json.loads(l)["id"] for l in open(os.path.join(HERE, "properties.jsonl"))]
    checks = []
    for pid in props:
        if pid not in CHECKS:
            continue
        cat, tech, text, note, ref, engine = CHECKS[pid]
        checks.append(dict(
            property_id=pid,
            quick_cmd=f"./vcheck {pid} quick",
            thorough_cmd=f"./vcheck {pid} thorough",
            evidence_file=f"evidence/{pid}.json",
            replay_cmd_template=f"./vcheck {pid} --replay {{path}}",
            engine=engine,
            level_claimed=dict(category=cat, text=text, design_ref=f"DESIGN.md section {ref}"),
            level_note=note,
            technique=tech,
        ))
    na = [dict(property_id=p, reason=NOT_APPLICABLE.get(p, PENDING_REASON)) for p in props if p not in CHECKS]
    hooks_commits = []
    m = dict(
        version=1,
        setup_cmd="./setup.sh",
        hooks=dict(
            guard="JOBLIB_VERIF",
            enable="no source hook is compiled into /repo: checks import /repo's working tree directly (PYTHONPATH=/repo) and observe it through public seams (backend extension API, task functions, input iterables, the file system via an LD_PRELOAD interposer, /proc, sys.monitoring); JOBLIB_VERIF=1 is exported by ./vcheck but nothing in joblib reads it",
            baseline_off_cmd="cd /repo && /venv/bin/python -m pytest -ra -q -p no:cacheprovider --timeout=900 --continue-on-collection-errors",
            source_commits=hooks_commits,
            add_only=True,
        ),
        engines=ENGINES,
        checks=checks,
        notes="Runtime monitoring only: every verdict comes from an oracle observing executions of /repo's working tree. Exit 0 held / 1 VIOLATION / 2 INCONCLUSIVE (monitor observed too little). Known findings: known_findings.json.",
        not_applicable=na,
    )
    path = os.path.join(HERE, "MANIFEST.json")
    with open(path, "w") as f:
        json.dump(m, f, indent=1)
        f.write("\n")
    try:
        r = subprocess.run(["python3-vt", "-c", (
            "import json,jsonschema,sys;"
            "jsonschema.validate(json.load(open(sys.argv[1])), json.load(open('/root/.vp/MANIFEST.schema.json')));print('MANIFEST valid')"), path])
        return r.returncode
    except FileNotFoundError:
        return 0


NOT_APPLICABLE = {}

ENGINES = [
    dict(name="memhist", path="vlib/memhist.py", serves_properties=["C02", "C06"],
         kind_free_text="generator of cached-function histories: functions with real source returning typed fingerprints, equivalent call forms, near-colliding twins, ignore variants, multi-process segments"),
    dict(name="fsshim", path="native/fsshim.c", serves_properties=["C05", "C11", "C10"],
         kind_free_text="LD_PRELOAD libc interposer (log / crash-at-k / turn-based sched / pipekill modes) with vlib/fssched.py coordinator"),
    dict(name="scripted-backend", path="vlib/scripted_backend.py", serves_properties=["C01", "C04", "C09", "C16"],
         kind_free_text="ParallelBackendBase subclass whose completion schedule (order, callback thread, in-submit completion, late completions) is owned by the check; trace monitor; instrumented input iterator"),
    dict(name="yield-injector", path="vlib/yieldinj.py", serves_properties=["C01", "C04", "C09"],
         kind_free_text="seeded pre-emption injection and check-owned scheduling points via sys.monitoring LINE events on joblib/parallel.py and _parallel_backends.py"),
    dict(name="objuniverse", path="vlib/gen_obj.py", serves_properties=["C08", "C03", "C14", "C02", "C06"],
         kind_free_text="seeded recursive universe of builtin values as specs: builder with permutable insertion order, canonical form, structural isomorphism (equality + aliasing)"),
    dict(name="budgets", path="vlib/budget.py", serves_properties=["C13", "C14", "C03"],
         kind_free_text="logical non-termination guards: sys.monitoring executed-line budgets on chosen modules, ITIMER_PROF CPU budget, RLIMIT_AS cap"),
    dict(name="harness", path="vlib/harness.py", serves_properties=["*"],
         kind_free_text="case runner: sharding over subprocess sessions, three-valued verdicts, evidence, known-findings matcher, replay"),
    dict(name="sigenum", path="vlib/gen_sig.py", serves_properties=["C07", "C02", "C06"],
         kind_free_text="exhaustive generator of Python signatures and call shapes as real source text"),
]

if __name__ == "__main__":
    sys.exit(main())
