#!/usr/bin/env python3
"""Run checks against deliberately broken scratch copies of /repo/joblib.

  tools/selftest.py [--tier quick] [--only C13] [--id m13a,...] [-j 4]

Mutants are (file, old, new) textual replacements listed in
selftest/mutants.json.  Each mutant gets its own copy of /repo's working tree
(joblib/ only) outside /repo and /verif, the check is run with VERIF_REPO
pointing at it and evidence/replays redirected, and the copy is removed.
Prints one line per mutant: CAUGHT / MISSED / INCONCLUSIVE.
"""
import argparse, json, os, shutil, subprocess, sys, tempfile, time
from concurrent.futures import ThreadPoolExecutor

HERE = os.path.dirname(os.path.dirname(os.path.abspath(__file__)))


def run(m, tier):
    d = tempfile.mkdtemp(prefix="vjl-mut-")
    try:
        shutil.copytree("/repo/joblib", os.path.join(d, "joblib"), ignore=shutil.ignore_patterns("__pycache__"))
        for ed in m["edits"]:
            p = os.path.join(d, ed["file"])
            s = open(p).read()
            if s.count(ed["old"]) != 1:
                return m, "BADMUTANT", f"'old' occurs {s.count(ed['old'])}x in {ed['file']}", 0
            open(p, "w").write(s.replace(ed["old"], ed["new"]))
        env = dict(os.environ, VERIF_REPO=d, VERIF_EVIDENCE_DIR=os.path.join(d, "ev"),
                   VERIF_REPLAY_DIR=os.path.join(d, "rp"), VERIF_SCRATCH=os.path.join(d, "scratch"))
        env.setdefault("VERIF_JOBS", "4")
        t0 = time.time()
        out = os.path.join(d, "out.txt")
        with open(out, "wb") as fo:
            p = subprocess.run([os.path.join(HERE, "vcheck"), m["prop"], m.get("tier", tier)], stdout=fo, stderr=fo,
                               stdin=subprocess.DEVNULL, env=env, timeout=m.get("timeout", 1800))
        txt = open(out, errors="replace").read()
        lines = [l for l in txt.splitlines() if l.startswith(("VIOLATION", "  key=", "INCONCLUSIVE"))]
        verdict = {0: "MISSED", 1: "CAUGHT", 2: "INCONCLUSIVE"}.get(p.returncode, f"rc={p.returncode}")
        return m, verdict, " | ".join(l[:160] for l in lines[:3]) or txt[-300:].replace("\n", " "), time.time() - t0
    except subprocess.TimeoutExpired:
        return m, "TIMEOUT", "", 0
    finally:
        shutil.rmtree(d, ignore_errors=True)


def main():
    ap = argparse.ArgumentParser()
    ap.add_argument("--tier", default="quick")
    ap.add_argument("--only")
    ap.add_argument("--id")
    ap.add_argument("-j", type=int, default=3)
    a = ap.parse_args()
    ms = json.load(open(os.path.join(HERE, "selftest", "mutants.json")))
    if a.only:
        ms = [m for m in ms if m["prop"] in a.only.split(",")]
    if a.id:
        ms = [m for m in ms if m["id"] in a.id.split(",")]
    bad = 0
    with ThreadPoolExecutor(a.j) as ex:
        for m, verdict, info, dt in ex.map(lambda m: run(m, a.tier), ms):
            print(f"{verdict:12s} {m['id']:8s} {m['prop']} {dt:6.1f}s  {m['note']}  :: {info}", flush=True)
            bad += verdict != "CAUGHT"
    return 1 if bad else 0


if __name__ == "__main__":
    sys.exit(main())
