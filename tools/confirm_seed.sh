#!/bin/sh
# tools/confirm_seed.sh C05 "joblib/test/test_memory.py ..." [extra PYTHONPATH]: confirm an adversary's change in its own worktree
id=$1; tests=$2; extra=$3
wt=/tmp/wt-$id
cd $wt || exit 2
git checkout -q -- joblib
PYTHONPATH=$wt${extra:+:$extra} timeout 600 /venv/bin/python seeded_demo.py > confirm_clean.out 2>&1 < /dev/null; rc_clean=$?
git apply seeded_patch.diff || { echo "patch does not apply"; exit 2; }
PYTHONPATH=$wt${extra:+:$extra} timeout 600 /venv/bin/python seeded_demo.py > confirm_seeded.out 2>&1 < /dev/null; rc_seeded=$?
PYTHONHASHSEED=0 timeout 2400 /venv/bin/python -m pytest -q -p no:cacheprovider -n 6 $tests > confirm_tests.out 2>&1 < /dev/null; rc_tests=$?
echo "$id demo_clean_rc=$rc_clean demo_seeded_rc=$rc_seeded tests_rc=$rc_tests $(grep -a ' passed' confirm_tests.out | tail -1 | sed 's/\x1b\[[0-9;]*m//g' | cut -c1-80)"
