#!/bin/sh
# tools/runall.sh [quick|thorough] [seed]: run every registered check, one summary line each
tier=${1:-quick}; seed=${2:-0}
cd "$(dirname "$0")/.."
for c in C01 C02 C03 C04 C05 C06 C07 C08 C09 C10 C11 C12 C13 C14 C15 C16 C17 C18 C19 C20; do
  s=$(date +%s)
  VERIF_SEED=$seed ./vcheck $c $tier > /tmp/runall.$c.out 2>&1; rc=$?
  e=$(date +%s)
  echo "$c rc=$rc $((e-s))s $(grep -E "^$c $tier" /tmp/runall.$c.out | cut -c1-120) $(grep -cE '^VIOLATION' /tmp/runall.$c.out) viol $(grep -E '^INCONCLUSIVE' /tmp/runall.$c.out | cut -c1-150)"
done
