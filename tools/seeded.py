#!/usr/bin/env python3
"""Run the checks against the independently seeded changes in seeded/<id>/.

  tools/seeded.py [--tier quick|thorough] [--id S-C01,...] [-j 2]

Each change is applied (patch -p1) to a scratch copy of /repo's working tree
(joblib/ only) outside /repo and /verif; the check of the property named in
meta.json runs with VERIF_REPO pointing at the copy; the copy is removed.
"""
import argparse, json, os, shutil, subprocess, sys, tempfile, time
from concurrent.futures import ThreadPoolExecutor

HERE = os.path.dirname(os.path.dirname(os.path.abspath(__file__)))


def run(sid, tier):
    sd = os.path.join(HERE, "seeded", sid)
    meta = json.load(open(os.path.join(sd, "meta.json")))
    d = tempfile.mkdtemp(prefix="vjl-seed-")
    try:
        shutil.copytree("/repo/joblib", os.path.join(d, "joblib"), ignore=shutil.ignore_patterns("__pycache__"))
        p = subprocess.run(["patch", "-p1", "-s", "-d", d, "-i", os.path.join(sd, "patch.diff")], capture_output=True, text=True)
        if p.returncode != 0:
            return sid, meta, "PATCH-FAILED", p.stdout[-300:] + p.stderr[-300:], 0
        env = dict(os.environ, VERIF_REPO=d, VERIF_EVIDENCE_DIR=os.path.join(d, "ev"), VERIF_REPLAY_DIR=os.path.join(d, "rp"),
                   VERIF_SCRATCH=os.path.join(d, "scratch"))
        env.setdefault("VERIF_JOBS", "6")
        t0 = time.time()
        res = []
        for prop in meta.get("checks", [meta["property"]]):
            out = os.path.join(d, f"out.{prop}.txt")
            with open(out, "wb") as fo:
                r = subprocess.run([os.path.join(HERE, "vcheck"), prop, tier], stdout=fo, stderr=fo, stdin=subprocess.DEVNULL, env=env, timeout=3600)
            txt = open(out, errors="replace").read()
            keys = [l.strip()[:200] for l in txt.splitlines() if l.startswith("  key=")]
            res.append((prop, {0: "MISSED", 1: "CAUGHT", 2: "INCONCLUSIVE"}.get(r.returncode, f"rc={r.returncode}"), keys[:2]))
        verdict = "CAUGHT" if any(v == "CAUGHT" for _, v, _ in res) else ("INCONCLUSIVE" if any(v == "INCONCLUSIVE" for _, v, _ in res) else "MISSED")
        return sid, meta, verdict, res, time.time() - t0
    finally:
        shutil.rmtree(d, ignore_errors=True)


def main():
    ap = argparse.ArgumentParser()
    ap.add_argument("--tier", default="quick")
    ap.add_argument("--id")
    ap.add_argument("-j", type=int, default=2)
    a = ap.parse_args()
    ids = sorted(x for x in os.listdir(os.path.join(HERE, "seeded")) if os.path.exists(os.path.join(HERE, "seeded", x, "meta.json"))
                 and not json.load(open(os.path.join(HERE, "seeded", x, "meta.json"))).get("status", "").startswith(("neutralised", "out-of-model")))
    if a.id:
        ids = [x for x in ids if x in a.id.split(",")]
    bad = 0
    with ThreadPoolExecutor(a.j) as ex:
        for sid, meta, verdict, res, dt in ex.map(lambda s: run(s, a.tier), ids):
            print(f"{verdict:12s} {sid:10s} {meta['property']} {dt:6.1f}s {meta['summary'][:90]} :: {res}", flush=True)
            bad += verdict != "CAUGHT"
    return 1 if bad else 0


if __name__ == "__main__":
    sys.exit(main())
