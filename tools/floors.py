#!/usr/bin/env python3
"""print observed counters (last evidence) against each check's floors: tools/floors.py quick"""
import importlib, json, os, sys
sys.path.insert(0, os.path.dirname(os.path.dirname(os.path.abspath(__file__))))
tier = sys.argv[1] if len(sys.argv) > 1 else "quick"
for i in range(1, 21):
    cid = f"C{i:02d}"
    try:
        mod = importlib.import_module(f"checks.c{i:02d}")
        ev = json.load(open(f"evidence/{cid}.json"))
    except Exception as e:
        print(cid, "?", e); continue
    if ev["tier"] != tier:
        continue
    cov = ev["coverage"]
    obs = dict(cov["counters"]); obs.update(cov["maxima"]); obs.update(cov["distinct_sets"])
    obs["conclusive"] = cov["evaluations"]; obs["distinct"] = cov["distinct_nontrivial"]
    for k, need in mod.FLOORS.get(tier, {}).items():
        got = obs.get(k, 0)
        flag = "  <-- TIGHT" if got < 1.4 * need else ""
        print(f"{cid} {k:40s} floor {need:8d} observed {got:8d} ratio {got / max(need, 1):5.1f}{flag}")
