#!/usr/bin/env python3
"""tools/store_seed.py <wt-id> <property> <summary> <needs> <test modules> [batch]: keep a confirmed seeded change of a
sub-agent's scratch worktree /tmp/wt-<id> as seeded/S-<id>/ (patch.diff, demo.py, agent_notes.txt, meta.json)"""
import json, os, shutil, sys
wid, prop, summary, needs, tests = sys.argv[1:6]
batch = sys.argv[6] if len(sys.argv) > 6 else "eleventh"
here = os.path.dirname(os.path.dirname(os.path.abspath(__file__)))
src, dst = f"/tmp/wt-{wid}", os.path.join(here, "seeded", f"S-{wid}")
os.makedirs(dst, exist_ok=True)
shutil.copy(f"{src}/seeded_patch.diff", f"{dst}/patch.diff")
shutil.copy(f"{src}/seeded_demo.py", f"{dst}/demo.py")
if os.path.exists(f"{src}/notes.txt"):
    shutil.copy(f"{src}/notes.txt", f"{dst}/agent_notes.txt")
json.dump({"property": prop, "summary": summary, "needs_to_manifest": needs,
           "origin": f"independent sub-agent given only the property text and a scratch worktree ({batch} batch)",
           "confirmed": {"how": "tools/confirm_seed.sh in the agent's scratch worktree: demo on unchanged code rc=0, demo with the patch rc=1, listed test modules with the patch rc=0",
                         "test_modules": tests}}, open(f"{dst}/meta.json", "w"), indent=1)
print("stored", dst)
