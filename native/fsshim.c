// LD_PRELOAD interposer used by the C05 / C11 (and C10) checks.  Modes (environment, nothing in joblib is touched):
//   VSHIM_ROOT=<dir>         calls whose path resolves under <dir> are "watched"
//   VSHIM_LOG=<file>         log mode: append "<mutation#> <pid> <tid> <op> <mut> <arg> <relpath>" per watched call
//   VSHIM_CRASH_AT=<k> VSHIM_CRASH_MODE=before|after|torn:<n>
//                            SIGKILL this process at its k-th mutating watched call (before it, after it, or after
//                            writing only the first n bytes of a write)
//   VSHIM_CTL=<unix socket> VSHIM_ID=<label>
//                            sched mode: before every watched call announce it to the coordinator and block until
//                            granted the turn (CPython releases the GIL around these calls)
//   VSHIM_PIPEKILL=<bytes>   (read at every write, so a process can arm itself through os.environ) the first write()
//                            of at least <bytes> to a pipe/socket is cut to half and the process SIGKILLs itself
#define _GNU_SOURCE
#include <dlfcn.h>
#include <errno.h>
#include <fcntl.h>
#include <pthread.h>
#include <signal.h>
#include <stdarg.h>
#include <stdio.h>
#include <stdlib.h>
#include <string.h>
#include <dirent.h>
#include <sys/socket.h>
#include <sys/stat.h>
#include <sys/syscall.h>
#include <sys/types.h>
#include <sys/uio.h>
#include <sys/un.h>
#include <unistd.h>

#define MAXFD 4096
static char *fdpath[MAXFD];
static pthread_mutex_t mu = PTHREAD_MUTEX_INITIALIZER;
static const char *root; static size_t rootlen;
static int logfd = -1; static long crash_at = -1; static char crash_mode[32] = "before";
static long nmut = 0; static const char *ctl; static const char *pid_label;
static int inited = 0;
static __thread int inshim = 0;
static __thread int ctlfd = -1;
static __thread long seq = 0;

#define REAL(name) static __typeof__(name) *real_##name; if (!real_##name) real_##name = dlsym(RTLD_NEXT, #name)

static void init(void) {
    if (inited) return;
    inited = 1;
    root = getenv("VSHIM_ROOT"); rootlen = root ? strlen(root) : 0;
    const char *l = getenv("VSHIM_LOG");
    if (l) logfd = syscall(SYS_openat, AT_FDCWD, l, O_WRONLY | O_CREAT | O_APPEND | O_CLOEXEC, 0644);
    const char *c = getenv("VSHIM_CRASH_AT"); if (c) crash_at = atol(c);
    const char *m = getenv("VSHIM_CRASH_MODE"); if (m) { strncpy(crash_mode, m, sizeof crash_mode - 1); }
    ctl = getenv("VSHIM_CTL"); pid_label = getenv("VSHIM_ID"); if (!pid_label) pid_label = "?";
}
static int under(const char *p) { return root && p && strncmp(p, root, rootlen) == 0 && (p[rootlen] == '/' || p[rootlen] == 0); }
static const char *resolve(int dirfd, const char *p, char *buf, size_t n) {
    if (!p) return NULL;
    if (p[0] == '/' || dirfd == AT_FDCWD) return p;
    if (dirfd >= 0 && dirfd < MAXFD) {
        pthread_mutex_lock(&mu);
        const char *d = fdpath[dirfd];
        if (d) { snprintf(buf, n, "%s/%s", d, p); pthread_mutex_unlock(&mu); return buf; }
        pthread_mutex_unlock(&mu);
    }
    return p;
}
static void track(int fd, const char *p) {
    if (fd < 0 || fd >= MAXFD) return;
    pthread_mutex_lock(&mu); free(fdpath[fd]); fdpath[fd] = p ? strdup(p) : NULL; pthread_mutex_unlock(&mu);
}
static const char *fdp(int fd, char *buf, size_t n) {
    const char *r = NULL;
    if (fd < 0 || fd >= MAXFD) return NULL;
    pthread_mutex_lock(&mu); if (fdpath[fd]) { snprintf(buf, n, "%s", fdpath[fd]); r = buf; } pthread_mutex_unlock(&mu);
    return r;
}
static void rawwrite(int fd, const char *s, size_t n) { while (n) { long k = syscall(SYS_write, fd, s, n); if (k <= 0) break; s += k; n -= k; } }

// Called before every watched call. mut: 1 if the call mutates the file system.
static void gate(const char *op, const char *path, int mut, long arg) {
    char line[1400];
    long tid = syscall(SYS_gettid);
    const char *rel = path + rootlen;
    if (ctl) {  // sched mode: announce and wait for the turn
        if (ctlfd < 0) {
            ctlfd = syscall(SYS_socket, AF_UNIX, SOCK_STREAM | SOCK_CLOEXEC, 0);
            struct sockaddr_un a; memset(&a, 0, sizeof a); a.sun_family = AF_UNIX; strncpy(a.sun_path, ctl, sizeof a.sun_path - 1);
            if (syscall(SYS_connect, ctlfd, &a, sizeof a) != 0) { ctlfd = -2; }
        }
        if (ctlfd >= 0) {
            int n = snprintf(line, sizeof line, "E %s %d %ld %ld %s %d %ld %s\n", pid_label, getpid(), tid, ++seq, op, mut, arg, rel);
            rawwrite(ctlfd, line, n);
            char go; long k;
            do { k = syscall(SYS_read, ctlfd, &go, 1); } while (k < 0 && errno == EINTR);
        }
    }
    long my = 0;
    if (mut) my = __sync_add_and_fetch(&nmut, 1);
    if (logfd >= 0) {
        int n = snprintf(line, sizeof line, "%ld %d %ld %s %d %ld %s\n", my, getpid(), tid, op, mut, arg, rel);
        rawwrite(logfd, line, n);
    }
    if (mut && crash_at >= 0 && my == crash_at && strcmp(crash_mode, "before") == 0) { syscall(SYS_kill, getpid(), SIGKILL); for (;;) pause(); }
}
static void after(int mut) {
    if (mut && crash_at >= 0 && nmut == crash_at && strcmp(crash_mode, "after") == 0) { syscall(SYS_kill, getpid(), SIGKILL); for (;;) pause(); }
}
static int pipekill_check(int fd, const void *b, size_t n);
#define ENTER int _was = inshim; inshim = 1; if (!inited) init();
#define LEAVE inshim = _was;
#define WATCH(p) (!_was && under(p))

int open64(const char *path, int flags, ...) {
    REAL(open64); mode_t mode = 0; if (flags & (O_CREAT | O_TMPFILE)) { va_list ap; va_start(ap, flags); mode = va_arg(ap, mode_t); va_end(ap); }
    ENTER; int w = WATCH(path); int mut = (flags & (O_CREAT | O_TRUNC)) != 0;
    if (w) gate("open", path, mut, flags);
    int fd = real_open64(path, flags, mode);
    if (w) { if (fd >= 0) track(fd, path); after(mut); }
    LEAVE; return fd;
}
int openat64(int dirfd, const char *path, int flags, ...) {
    REAL(openat64); mode_t mode = 0; if (flags & (O_CREAT | O_TMPFILE)) { va_list ap; va_start(ap, flags); mode = va_arg(ap, mode_t); va_end(ap); }
    char buf[1200]; ENTER; const char *full = resolve(dirfd, path, buf, sizeof buf); int w = WATCH(full); int mut = (flags & (O_CREAT | O_TRUNC)) != 0;
    if (w) gate("open", full, mut, flags);
    int fd = real_openat64(dirfd, path, flags, mode);
    if (w) { if (fd >= 0) track(fd, full); after(mut); }
    LEAVE; return fd;
}
int close(int fd) {
    REAL(close); char buf[1200]; ENTER; const char *p = _was ? NULL : fdp(fd, buf, sizeof buf);
    if (p) { gate("close", p, 0, fd); track(fd, NULL); }
    int r = real_close(fd); LEAVE; return r;
}
ssize_t write(int fd, const void *b, size_t n) {
    REAL(write); char buf[1200]; ENTER; const char *p = _was ? NULL : fdp(fd, buf, sizeof buf);
    if (!p && !_was && n >= 4096) pipekill_check(fd, b, n);
    if (p) {
        gate("write", p, 1, (long)n);
        if (crash_at >= 0 && nmut == crash_at && strncmp(crash_mode, "torn:", 5) == 0) {
            size_t k = (size_t)atol(crash_mode + 5); if (k > n) k = n;
            rawwrite(fd, b, k); syscall(SYS_kill, getpid(), SIGKILL); for (;;) pause();
        }
    }
    ssize_t r = real_write(fd, b, n); if (p) after(1); LEAVE; return r;
}
int stat64(const char *path, struct stat64 *st) { REAL(stat64); ENTER; int w = WATCH(path); if (w) gate("stat", path, 0, 0); int r = real_stat64(path, st); LEAVE; return r; }
int lstat64(const char *path, struct stat64 *st) { REAL(lstat64); ENTER; int w = WATCH(path); if (w) gate("lstat", path, 0, 0); int r = real_lstat64(path, st); LEAVE; return r; }
int fstatat64(int dirfd, const char *path, struct stat64 *st, int flags) {
    REAL(fstatat64); char buf[1200]; ENTER; const char *full = resolve(dirfd, path, buf, sizeof buf); int w = WATCH(full);
    if (w) gate("stat", full, 0, flags); int r = real_fstatat64(dirfd, path, st, flags); LEAVE; return r;
}
int access(const char *path, int m) { REAL(access); ENTER; int w = WATCH(path); if (w) gate("access", path, 0, m); int r = real_access(path, m); LEAVE; return r; }
int mkdir(const char *path, mode_t m) { REAL(mkdir); ENTER; int w = WATCH(path); if (w) gate("mkdir", path, 1, 0); int r = real_mkdir(path, m); if (w) after(1); LEAVE; return r; }
int mkdirat(int dirfd, const char *path, mode_t m) {
    REAL(mkdirat); char buf[1200]; ENTER; const char *full = resolve(dirfd, path, buf, sizeof buf); int w = WATCH(full);
    if (w) gate("mkdir", full, 1, 0); int r = real_mkdirat(dirfd, path, m); if (w) after(1); LEAVE; return r;
}
int rename(const char *a, const char *b) { REAL(rename); ENTER; int w = WATCH(b) || WATCH(a); if (w) gate("rename", under(b) ? b : a, 1, 0); int r = real_rename(a, b); if (w) after(1); LEAVE; return r; }
int renameat(int ad, const char *a, int bd, const char *b) {
    REAL(renameat); char buf[1200]; ENTER; const char *full = resolve(bd, b, buf, sizeof buf); int w = WATCH(full);
    if (w) gate("rename", full, 1, 0); int r = real_renameat(ad, a, bd, b); if (w) after(1); LEAVE; return r;
}
int unlink(const char *path) { REAL(unlink); ENTER; int w = WATCH(path); if (w) gate("unlink", path, 1, 0); int r = real_unlink(path); if (w) after(1); LEAVE; return r; }
int unlinkat(int dirfd, const char *path, int flags) {
    REAL(unlinkat); char buf[1200]; ENTER; const char *full = resolve(dirfd, path, buf, sizeof buf); int w = WATCH(full);
    if (w) gate((flags & AT_REMOVEDIR) ? "rmdir" : "unlink", full, 1, 0); int r = real_unlinkat(dirfd, path, flags); if (w) after(1); LEAVE; return r;
}
int rmdir(const char *path) { REAL(rmdir); ENTER; int w = WATCH(path); if (w) gate("rmdir", path, 1, 0); int r = real_rmdir(path); if (w) after(1); LEAVE; return r; }
DIR *opendir(const char *path) { REAL(opendir); ENTER; int w = WATCH(path); if (w) gate("opendir", path, 0, 0); DIR *d = real_opendir(path); if (w && d) track(dirfd(d), path); LEAVE; return d; }
static int pipekill_check(int fd, const void *b, size_t n) {
    const char *pk = getenv("VSHIM_PIPEKILL");
    if (!pk) return 0;
    size_t lim = (size_t)atol(pk);
    if (lim == 0 || n < lim) return 0;
    struct stat st;
    if (syscall(SYS_fstat, fd, &st) != 0) return 0;
    if (!S_ISFIFO(st.st_mode) && !S_ISSOCK(st.st_mode)) return 0;
    rawwrite(fd, b, n / 2 < 65536 ? n / 2 : 65536);
    syscall(SYS_kill, getpid(), SIGKILL);
    for (;;) pause();
    return 1;
}
ssize_t pwrite64(int fd, const void *b, size_t n, off64_t off) {
    REAL(pwrite64); char buf[1200]; ENTER; const char *p = _was ? NULL : fdp(fd, buf, sizeof buf);
    if (p) gate("pwrite", p, 1, (long)n);
    ssize_t r = real_pwrite64(fd, b, n, off); if (p) after(1); LEAVE; return r;
}
ssize_t writev(int fd, const struct iovec *iov, int cnt) {
    REAL(writev); char buf[1200]; ENTER; const char *p = _was ? NULL : fdp(fd, buf, sizeof buf);
    if (p) gate("writev", p, 1, (long)cnt);
    ssize_t r = real_writev(fd, iov, cnt); if (p) after(1); LEAVE; return r;
}
int ftruncate64(int fd, off64_t len) {
    REAL(ftruncate64); char buf[1200]; ENTER; const char *p = _was ? NULL : fdp(fd, buf, sizeof buf);
    if (p) gate("ftruncate", p, 1, (long)len);
    int r = real_ftruncate64(fd, len); if (p) after(1); LEAVE; return r;
}
int truncate64(const char *path, off64_t len) {
    REAL(truncate64); ENTER; int w = WATCH(path); if (w) gate("truncate", path, 1, (long)len);
    int r = real_truncate64(path, len); if (w) after(1); LEAVE; return r;
}
int faccessat(int dirfd, const char *path, int m, int flags) {
    REAL(faccessat); char buf[1200]; ENTER; const char *full = resolve(dirfd, path, buf, sizeof buf); int w = WATCH(full);
    if (w) gate("access", full, 0, m); int r = real_faccessat(dirfd, path, m, flags); LEAVE; return r;
}
int utimensat(int dirfd, const char *path, const struct timespec ts[2], int flags) {
    REAL(utimensat); char buf[1200]; ENTER; const char *full = path ? resolve(dirfd, path, buf, sizeof buf) : NULL; int w = full && WATCH(full);
    if (w) gate("utime", full, 1, 0); int r = real_utimensat(dirfd, path, ts, flags); if (w) after(1); LEAVE; return r;
}
int link(const char *a, const char *b) { REAL(link); ENTER; int w = WATCH(b); if (w) gate("link", b, 1, 0); int r = real_link(a, b); if (w) after(1); LEAVE; return r; }
int symlink(const char *a, const char *b) { REAL(symlink); ENTER; int w = WATCH(b); if (w) gate("symlink", b, 1, 0); int r = real_symlink(a, b); if (w) after(1); LEAVE; return r; }
int renameat2(int ad, const char *a, int bd, const char *b, unsigned int flags) {
    REAL(renameat2); char buf[1200]; ENTER; const char *full = resolve(bd, b, buf, sizeof buf); int w = WATCH(full);
    if (w) gate("rename", full, 1, 0); int r = real_renameat2(ad, a, bd, b, flags); if (w) after(1); LEAVE; return r;
}
DIR *fdopendir(int fd) { REAL(fdopendir); char buf[1200]; ENTER; const char *p = _was ? NULL : fdp(fd, buf, sizeof buf); if (p) gate("listdir", p, 0, 0); DIR *d = real_fdopendir(fd); LEAVE; return d; }
